package main

import (
	"fmt"
	"go/ast"
	"go/constant"
	"go/token"
	"go/types"
	"sort"
	"strings"

	"golang.org/x/tools/go/packages"
	"golang.org/x/tools/go/ssa"
)

func init() {
	register("C19", "core builtins and bundled package tables agree with their Go counterparts", checkC19)
}

// builtin names the property statement lists, with the Go result type their contract implies.
var c19Builtins = map[string]string{
	"range": "[]int64", "keys": "[]interface{}", "typeOf": "string", "kindOf": "string",
	"toInt": "int64", "toFloat": "float64", "toString": "string", "toRune": "rune", "toChar": "string",
	"toByteSlice": "[]byte", "toRuneSlice": "[]rune",
	"toBoolSlice": "[]bool", "toStringSlice": "[]string", "toIntSlice": "[]int64", "toFloatSlice": "[]float64",
}

func checkC19(p *Program, r *Report) {
	r.Explain("C19: R1 every entry K: reflect.ValueOf(X) / reflect.TypeOf(X) stored in env.Packages[P] / env.PackageTypes[P] resolves (go/types) to the exported object or named type K of the package whose import path is P — exhaustive over all table entries of the loaded build configuration. " +
		"R2 P is a string constant and all entries of the table come from package P. " +
		"R3 every builtin the statement lists is defined by core.Import with a function value of the contract's result type; no process-exit call is reachable in core/packages table code. " +
		"R9 the value of a strconv parse is used only on the err == nil side. R8 in the builtins reflect.Value.Convert(t) only on the true side of ConvertibleTo(t). R6 a byte of a string converted to a rune only where the string is known to hold a single byte (the first character of a string is its first rune). R7 strconv.FormatFloat with bitSize 32 only for a value that is a float32. " +
		"R5 an integer read from a numeral string is parsed exactly: a strconv.ParseFloat whose result is truncated to an integer lies on the failure edge of strconv.ParseInt of the same string. " +
		"R4 structural clauses of range/keys/toSlice on SSA: argument-count and zero-step rejections dominate the loop; the loop is a counting loop appending its own induction variable with strict bounds in both directions; keys copies one element per MapKeys entry; toSlice stores Zero on the non-convertible edge.")
	r.Assume("numeric behaviour of range near the int64 limits and of toInt/toFloat/toString versus strconv/fmt is value-level and not decided")
	r.Exhaustive = true
	c19Tables(p, r)
	c19Builtin(p, r)
}

func c19Tables(p *Program, r *Report) {
	pk := p.Pkg("packages")
	envPk := p.Pkg("env")
	if pk == nil || envPk == nil {
		r.Undecided("C19.R1", "packages", "-", "package packages/env not loaded")
		return
	}
	info := pk.TypesInfo
	tableVar := func(e ast.Expr) string { // "Packages" / "PackageTypes" if e denotes that variable of package env
		var id *ast.Ident
		switch e := e.(type) {
		case *ast.SelectorExpr:
			id = e.Sel
		case *ast.Ident:
			id = e
		}
		if id == nil {
			return ""
		}
		v, ok := info.Uses[id].(*types.Var)
		if !ok || v.Pkg() != envPk.Types || v.Parent() != envPk.Types.Scope() {
			return ""
		}
		if v.Name() == "Packages" || v.Name() == "PackageTypes" {
			return v.Name()
		}
		return ""
	}
	constStr := func(e ast.Expr) (string, bool) {
		tv := info.Types[e]
		if tv.Value == nil || tv.Value.Kind() != constant.String {
			return "", false
		}
		return constant.StringVal(tv.Value), true
	}
	nTables, nEntries := 0, 0
	tablePkgs := map[string]bool{}
	checkEntry := func(table, P string, keyE, valE ast.Expr) {
		nEntries++
		K, ok := constStr(keyE)
		site := p.Pos(valE.Pos())
		inst := P + "|" + K
		if !ok {
			r.Fail("C19.R1", P+"|<non-constant key>", site, "table key is not a string constant")
			return
		}
		call, ok := valE.(*ast.CallExpr)
		if !ok {
			r.Fail("C19.R1", inst, site, "entry is not a reflect.ValueOf/TypeOf call")
			return
		}
		if table == "Packages" {
			if !isPkgFunc(info, call.Fun, "reflect", "ValueOf") || len(call.Args) != 1 {
				r.Fail("C19.R1", inst, site, "value entry is not reflect.ValueOf(X)")
				return
			}
			x := ast.Unparen(call.Args[0])
			if u, ok := x.(*ast.UnaryExpr); ok && u.Op == token.AND {
				x = ast.Unparen(u.X)
			}
			sel, ok := x.(*ast.SelectorExpr)
			if !ok {
				r.Fail("C19.R1", inst, site, "argument of reflect.ValueOf is not a package-qualified symbol")
				return
			}
			obj := info.Uses[sel.Sel]
			if obj == nil || obj.Pkg() == nil {
				r.Fail("C19.R1", inst, site, "symbol does not resolve")
				return
			}
			if _, isPkgName := info.Uses[identOf(sel.X)].(*types.PkgName); !isPkgName {
				r.Fail("C19.R1", inst, site, "argument is not a package-level symbol")
				return
			}
			tablePkgs[P+"\x00"+obj.Pkg().Path()] = true
			if obj.Name() != K || obj.Pkg().Path() != P {
				r.Fail("C19.R1", inst, site, fmt.Sprintf("listed as %q of %q but bound to %s.%s", K, P, obj.Pkg().Path(), obj.Name()))
				return
			}
			r.OK("C19.R1", inst, site, "resolves to "+obj.Pkg().Path()+"."+obj.Name())
			return
		}
		// types: reflect.TypeOf(X) or reflect.TypeOf(X).Elem()
		elems := 0
		inner := call
		for {
			sel, ok := inner.Fun.(*ast.SelectorExpr)
			if ok && sel.Sel.Name == "Elem" && len(inner.Args) == 0 {
				if c2, ok := ast.Unparen(sel.X).(*ast.CallExpr); ok {
					elems++
					inner = c2
					continue
				}
			}
			break
		}
		if !isPkgFunc(info, inner.Fun, "reflect", "TypeOf") || len(inner.Args) != 1 {
			r.Fail("C19.R1", inst, site, "type entry is not reflect.TypeOf(X)[.Elem()]")
			return
		}
		t := info.TypeOf(inner.Args[0])
		for i := 0; i < elems && t != nil; i++ {
			if pt, ok := t.Underlying().(*types.Pointer); ok {
				t = pt.Elem()
			} else {
				t = nil
			}
		}
		ptrs := 0
		for t != nil {
			if pt, ok := t.(*types.Pointer); ok {
				t = pt.Elem()
				ptrs++
				continue
			}
			break
		}
		n, ok := t.(*types.Named)
		if !ok || n.Obj().Pkg() == nil {
			r.Fail("C19.R1", inst, site, "registered type is not a named type")
			return
		}
		// a struct type may be listed through a pointer (values are made with new); an interface type is listed as itself:
		// a pointer to an interface is a different type that no Go function of the package takes
		if _, isIface := n.Underlying().(*types.Interface); isIface && ptrs > 0 {
			r.Fail("C19.R1", inst, site, fmt.Sprintf("listed as type %q of %q but the entry is a pointer to that interface type (an .Elem() is missing): channels, slices and maps of it are of a type no function of the package accepts", K, P))
			return
		}
		tablePkgs[P+"\x00"+n.Obj().Pkg().Path()] = true
		if n.Obj().Name() != K || n.Obj().Pkg().Path() != P {
			r.Fail("C19.R1", inst, site, fmt.Sprintf("listed as type %q of %q but is %s.%s", K, P, n.Obj().Pkg().Path(), n.Obj().Name()))
			return
		}
		r.OK("C19.R1", inst, site, "is named type "+n.Obj().Pkg().Path()+"."+n.Obj().Name())
	}
	for _, f := range pk.Syntax {
		ast.Inspect(f, func(n ast.Node) bool {
			as, ok := n.(*ast.AssignStmt)
			if !ok || len(as.Lhs) != len(as.Rhs) {
				return true
			}
			for i, lhs := range as.Lhs {
				ix, ok := lhs.(*ast.IndexExpr)
				if !ok {
					continue
				}
				if tv := tableVar(ix.X); tv != "" {
					// env.Packages[P] = map literal
					nTables++
					P, ok := constStr(ix.Index)
					site := p.Pos(ix.Pos())
					if !ok {
						r.Fail("C19.R2", tv+"|<non-constant path>", site, "table is registered under a non-constant import path")
						continue
					}
					cl, ok := as.Rhs[i].(*ast.CompositeLit)
					if !ok {
						r.Fail("C19.R2", tv+"|"+P, site, "table value is not a map literal")
						continue
					}
					r.OK("C19.R2", tv+"|"+P, site, "registered under a constant import path")
					for _, el := range cl.Elts {
						kv, ok := el.(*ast.KeyValueExpr)
						if !ok {
							continue
						}
						checkEntry(tv, P, kv.Key, kv.Value)
					}
					continue
				}
				if ix2, ok := ix.X.(*ast.IndexExpr); ok {
					if tv := tableVar(ix2.X); tv != "" {
						P, ok := constStr(ix2.Index)
						if !ok {
							r.Fail("C19.R2", tv+"|<non-constant path>", p.Pos(ix.Pos()), "entry added under a non-constant import path")
							continue
						}
						checkEntry(tv, P, ix.Index, as.Rhs[i])
					}
				}
			}
			return true
		})
	}
	// R2: one source package per table
	perTable := map[string][]string{}
	for k := range tablePkgs {
		parts := strings.SplitN(k, "\x00", 2)
		perTable[parts[0]] = append(perTable[parts[0]], parts[1])
	}
	r.Floor("C19.R1", nEntries, 590)
	r.Floor("C19.R2", nTables, 36)
	r.Note("tables", nTables)
	r.Note("entries", nEntries)
	// writers of the tables outside package packages (who-may-write): only init-time code of `packages`
	for _, opk := range p.All {
		if opk == pk {
			continue
		}
		for _, f := range opk.Syntax {
			ast.Inspect(f, func(n ast.Node) bool {
				as, ok := n.(*ast.AssignStmt)
				if !ok {
					return true
				}
				for _, lhs := range as.Lhs {
					e := lhs
					for {
						if ix, ok := e.(*ast.IndexExpr); ok {
							e = ix.X
							continue
						}
						break
					}
					var id *ast.Ident
					switch e := e.(type) {
					case *ast.SelectorExpr:
						id = e.Sel
					case *ast.Ident:
						id = e
					}
					if id == nil {
						continue
					}
					if v, ok := opk.TypesInfo.Uses[id].(*types.Var); ok && v.Pkg() == envPk.Types && v.Parent() == envPk.Types.Scope() &&
						(v.Name() == "Packages" || v.Name() == "PackageTypes") && e != lhs {
						r.Fail("C19.R2", "writer|"+opk.PkgPath, p.Pos(as.Pos()), "package table written outside package packages")
					}
				}
				return true
			})
		}
	}
}

func identOf(e ast.Expr) *ast.Ident {
	id, _ := e.(*ast.Ident)
	return id
}

func isPkgFunc(info *types.Info, fun ast.Expr, pkgPath, name string) bool {
	sel, ok := fun.(*ast.SelectorExpr)
	if !ok {
		return false
	}
	fn, ok := info.Uses[sel.Sel].(*types.Func)
	return ok && fn.Name() == name && fn.Pkg() != nil && fn.Pkg().Path() == pkgPath
}

// definedBuiltins finds e.Define("name", value) calls in package core.
func definedBuiltins(pk *packages.Package) map[string]ast.Expr {
	out := map[string]ast.Expr{}
	for _, f := range pk.Syntax {
		ast.Inspect(f, func(n ast.Node) bool {
			c, ok := n.(*ast.CallExpr)
			if !ok || len(c.Args) != 2 {
				return true
			}
			sel, ok := c.Fun.(*ast.SelectorExpr)
			if !ok {
				return true
			}
			fn, ok := pk.TypesInfo.Uses[sel.Sel].(*types.Func)
			if !ok || !isFuncNamed(fn, modPath+"/env", "Env", "Define") {
				return true
			}
			tv := pk.TypesInfo.Types[c.Args[0]]
			if tv.Value != nil && tv.Value.Kind() == constant.String {
				out[constant.StringVal(tv.Value)] = c.Args[1]
			}
			return true
		})
	}
	return out
}

func c19Builtin(p *Program, r *Report) {
	pk := p.Pkg("core")
	sp := p.SSAPkg("core")
	if pk == nil || sp == nil {
		r.Undecided("C19.R3", "core", "-", "package core not loaded")
		return
	}
	defs := definedBuiltins(pk)
	var names []string
	for n := range c19Builtins {
		names = append(names, n)
	}
	sort.Strings(names)
	for _, n := range names {
		v, ok := defs[n]
		if !ok {
			r.Fail("C19.R3", "builtin|"+n, "core", "builtin "+n+" is not defined by core.Import/ImportToX")
			continue
		}
		sig, ok := pk.TypesInfo.TypeOf(v).Underlying().(*types.Signature)
		if !ok {
			r.Fail("C19.R3", "builtin|"+n, p.Pos(v.Pos()), "builtin "+n+" is not bound to a function")
			continue
		}
		got := ""
		if sig.Results().Len() == 1 {
			got = types.TypeString(sig.Results().At(0).Type(), nil)
		}
		want := c19Builtins[n]
		same := got == want || (want == "rune" && got == "int32") || (want == "[]byte" && got == "[]uint8") || (want == "[]rune" && got == "[]int32")
		r.Check(same, "C19.R3", "builtin|"+n, p.Pos(v.Pos()), "defined with result type "+got, fmt.Sprintf("builtin %s returns %s, contract needs %s", n, got, want))
	}
	// the Define calls must be reached from the exported Import (call graph: Import -> ImportToX)
	var imp *ssa.Function
	if m := sp.Members["Import"]; m != nil {
		imp, _ = m.(*ssa.Function)
	}
	if imp == nil {
		r.Fail("C19.R3", "Import", "core", "core.Import not found")
	} else {
		reach := map[*ssa.Function]bool{}
		var visit func(f *ssa.Function)
		visit = func(f *ssa.Function) {
			if f == nil || reach[f] || f.Blocks == nil {
				return
			}
			reach[f] = true
			for _, b := range f.Blocks {
				for _, in := range b.Instrs {
					if c, ok := in.(ssa.CallInstruction); ok {
						visit(staticCallee(c))
					}
				}
			}
		}
		visit(imp)
		for _, n := range names {
			v, ok := defs[n]
			if !ok {
				continue
			}
			found := false
			for f := range reach {
				if f.Pkg == sp && f.Syntax() != nil && f.Syntax().Pos() <= v.Pos() && v.End() <= f.Syntax().End() {
					found = true
				}
			}
			r.Check(found, "C19.R3", "reached|"+n, p.Pos(v.Pos()), "Define call is inside a function reachable from core.Import", "definition of "+n+" is not reachable from core.Import")
		}
	}
	// no process exit in core (misuse must surface as an error)
	for _, fn := range SrcFuncs(sp) {
		for _, b := range fn.Blocks {
			for _, in := range b.Instrs {
				if c, ok := in.(ssa.CallInstruction); ok {
					if o := calleeObj(c); o != nil && isProcessExit(o) {
						r.Fail("C19.R3", "exit|"+funcName(fn), p.Pos(c.Pos()), "builtin code calls "+o.FullName()+": misuse would end the process instead of raising an error")
					}
				}
			}
		}
	}
	r.OK("C19.R3", "exit|core", "core", "no os.Exit/log.Fatal/runtime.Goexit call in package core")

	c19ExactFirst(p, r)
	c19TextConversions(p, r)
	c19ConvertGuarded(p, r)
	c19ParseResultUsed(p, r)
	c19InvalidExit(p, r)
	// R4: structural clauses on SSA
	lits := map[string]*ssa.Function{}
	for _, fn := range SrcFuncs(sp) {
		if fn.Parent() == nil || fn.Syntax() == nil {
			continue
		}
		for n, v := range defs {
			if fl, ok := v.(*ast.FuncLit); ok && fl.Pos() == fn.Syntax().Pos() {
				lits[n] = fn
			}
		}
	}
	c19Range(p, r, lits["range"])
	c19Keys(p, r, lits["keys"])
	c19ImportFresh(p, r)
	c19LenIsLen(p, r)
	// R14: a builtin that tells numeric kinds apart by a kind switch has an arm for every kind of a class it has arms for
	// (today the conversions go through reflect's ConvertibleTo and there is no such switch: the rule arms itself when one appears)
	r.Explain("R15 a builtin narrows a rune or wider integer to a byte only under an upper-bound test against at most 0x7F (text is built through string(rune), UTF-8).")
	c19RuneToByte(p, r)
	r.Explain("R14 a kind switch in a builtin that has arms for most kinds of a numeric class (signed, unsigned, float) has arms for all of them.")
	if csp := p.SSAPkg("core"); csp != nil {
		n := kindSwitchesComplete(p, r, SrcFuncs(csp), "C19.R14")
		if n == 0 {
			r.OK("C19.R14", "core|no kind switch over a numeric class", "core", "the numeric conversions of the builtins go through reflect's ConvertibleTo / Convert")
		}
	}
	c19Describes(p, r, "typeOf", lits["typeOf"], false)
	c19Describes(p, r, "kindOf", lits["kindOf"], true)
	var toSlice *ssa.Function
	if m := sp.Members["toSlice"]; m != nil {
		toSlice, _ = m.(*ssa.Function)
	}
	c19ToSlice(p, r, toSlice)
}

func isProcessExit(o *types.Func) bool {
	if o.Pkg() == nil {
		return false
	}
	switch o.Pkg().Path() {
	case "os":
		return o.Name() == "Exit"
	case "log":
		return strings.HasPrefix(o.Name(), "Fatal")
	case "runtime":
		return o.Name() == "Goexit"
	case "syscall":
		return o.Name() == "Exit"
	}
	return false
}

// c19Range checks the structural clauses of the range builtin.
func c19Range(p *Program, r *Report, fn *ssa.Function) {
	if fn == nil {
		r.Undecided("C19.R4", "range", "core", "function literal bound to \"range\" not found")
		return
	}
	site := p.Pos(fn.Pos())
	loops := loopsOf(fn)
	if len(loops) != 1 {
		r.Undecided("C19.R4", "range|loop", site, fmt.Sprintf("expected one loop in range, found %d", len(loops)))
		return
	}
	l := loops[0]
	// induction variable: phi at header with an edge from outside (start) and an edge i+step
	var ind *ssa.Phi
	var step ssa.Value
	for _, in := range l.Header.Instrs {
		phi, ok := in.(*ssa.Phi)
		if !ok {
			break
		}
		for _, e := range phi.Edges {
			if bo, ok := e.(*ssa.BinOp); ok && bo.Op == token.ADD && bo.X == ssa.Value(phi) {
				ind, step = phi, bo.Y
			}
		}
	}
	if ind == nil {
		r.Undecided("C19.R4", "range|loop", site, "loop has no additive induction variable")
		return
	}
	// appended value is the induction variable itself
	appendedOK := false
	for b := range l.Body {
		for _, in := range b.Instrs {
			c, ok := in.(*ssa.Call)
			if !ok {
				continue
			}
			if bi, ok := c.Call.Value.(*ssa.Builtin); ok && bi.Name() == "append" && len(c.Call.Args) == 2 {
				// second arg is a slice of a one-element array holding the appended value
				if storesValueInto(c.Call.Args[1], ind) {
					appendedOK = true
				} else {
					r.Fail("C19.R4", "range|append", p.Pos(c.Pos()), "range appends something other than its induction variable")
					return
				}
			}
		}
	}
	r.Check(appendedOK, "C19.R4", "range|append", site, "the loop appends its own induction variable", "range loop does not append its induction variable")
	// loop condition: (step > 0 && i < stop) || (step < 0 && i > stop): collect comparisons on ind and step inside header-controlled blocks
	var cmps []string
	var stop ssa.Value
	okCmp := true
	for b := range l.Body {
		for _, in := range b.Instrs {
			bo, ok := in.(*ssa.BinOp)
			if !ok {
				continue
			}
			if bo.Y == ssa.Value(ind) && bo.X != ssa.Value(ind) {
				// stop > i is i < stop
				mirror := map[token.Token]token.Token{token.LSS: token.GTR, token.GTR: token.LSS, token.LEQ: token.GEQ, token.GEQ: token.LEQ}
				if op, ok := mirror[bo.Op]; ok {
					bo = &ssa.BinOp{Op: op, X: bo.Y, Y: bo.X}
				}
			}
			switch {
			case bo.X == ssa.Value(ind) && (bo.Op == token.LSS || bo.Op == token.GTR || bo.Op == token.LEQ || bo.Op == token.GEQ):
				cmps = append(cmps, "i"+bo.Op.String()+"stop")
				if stop == nil {
					stop = bo.Y
				} else if stop != bo.Y {
					okCmp = false
				}
			case bo.X == step && isZeroConst(bo.Y) && (bo.Op == token.LSS || bo.Op == token.GTR || bo.Op == token.LEQ || bo.Op == token.GEQ):
				cmps = append(cmps, "step"+bo.Op.String()+"0")
			}
		}
	}
	sort.Strings(cmps)
	want := []string{"i<stop", "i>stop", "step<0", "step>0"}
	r.Check(okCmp && fmt.Sprint(cmps) == fmt.Sprint(want), "C19.R4", "range|bounds", site,
		"loop continues iff (step>0 && i<stop) || (step<0 && i>stop): comparisons "+fmt.Sprint(cmps),
		"range loop comparisons are "+fmt.Sprint(cmps)+", contract needs strict "+fmt.Sprint(want)+" against one stop value")
	// pairing: i<stop must be control dependent on step>0 (same conjunction): the block computing i<stop is reached only via the true edge of step>0
	for b := range l.Body {
		for _, in := range b.Instrs {
			bo, ok := in.(*ssa.BinOp)
			if !ok || bo.X != ssa.Value(ind) {
				continue
			}
			var needOp token.Token
			switch bo.Op {
			case token.LSS:
				needOp = token.GTR
			case token.GTR:
				needOp = token.LSS
			default:
				continue
			}
			good := len(b.Preds) > 0
			for _, pr := range b.Preds {
				iff, ok := pr.Instrs[len(pr.Instrs)-1].(*ssa.If)
				if !ok || pr.Succs[0] != b {
					good = false
					continue
				}
				c, ok := iff.Cond.(*ssa.BinOp)
				if !ok || c.X != step || c.Op != needOp || !isZeroConst(c.Y) {
					good = false
				}
			}
			r.Check(good, "C19.R4", "range|direction|"+bo.Op.String(), p.Pos(bo.Pos()), "bound test guarded by the matching sign test of step",
				"the "+bo.Op.String()+" bound test is not guarded by the matching sign of step")
		}
	}
	// rejections dominate the loop: every path from entry to the loop header with len(args) outside 1..3, or step == 0, panics.
	// structural reading: there is a panic block reached on len(args)==0, on the default arm, and on step==0; the step==0 test uses the same value as the loop's step on the 3-argument path.
	panics := 0
	zeroStepPanic := false
	for _, b := range fn.Blocks {
		if _, ok := b.Instrs[len(b.Instrs)-1].(*ssa.Panic); !ok {
			continue
		}
		panics++
		for _, pr := range b.Preds {
			if iff, ok := pr.Instrs[len(pr.Instrs)-1].(*ssa.If); ok && pr.Succs[0] == b {
				if c, ok := iff.Cond.(*ssa.BinOp); ok && c.Op == token.EQL && isZeroConst(c.Y) && flowsInto(c.X, step) {
					zeroStepPanic = true
				}
			}
		}
	}
	r.Check(zeroStepPanic, "C19.R4", "range|zero-step", site, "step == 0 panics before the loop", "a zero step is not rejected before the loop (the loop would not terminate or would return a wrong list)")
	r.Check(panics >= 3, "C19.R4", "range|arg-count", site, fmt.Sprintf("%d panic exits (no arguments, too many arguments, zero step)", panics), fmt.Sprintf("only %d panic exits: a wrong argument count is not rejected", panics))
	// argument roles per switch arm: (start, stop, step) must be (0,a0,1), (a0,a1,1), (a0,a1,a2)
	var start ssa.Value
	for i, e := range ind.Edges {
		if !l.Body[ind.Block().Preds[i]] {
			start = e
		}
	}
	desc := func(v ssa.Value) string {
		switch x := v.(type) {
		case *ssa.UnOp:
			if ia, ok := x.X.(*ssa.IndexAddr); ok {
				if c, ok := ia.Index.(*ssa.Const); ok && ia.X == ssa.Value(fn.Params[0]) {
					return fmt.Sprintf("a%d", c.Int64())
				}
			}
		case *ssa.Const:
			if x.Value != nil && x.Value.Kind() == constant.Int {
				return fmt.Sprint(x.Int64())
			}
		}
		return "?"
	}
	ps, okS := start.(*ssa.Phi)
	pt, okT := stop.(*ssa.Phi)
	pp, okP := step.(*ssa.Phi)
	if start == nil || stop == nil || !okS || !okT || !okP || ps.Block() != pt.Block() || ps.Block() != pp.Block() {
		r.Undecided("C19.R4", "range|roles", site, "start/stop/step are not merged from the argument-count arms in one place")
		return
	}
	var tuples []string
	for i := range ps.Edges {
		tuples = append(tuples, "("+desc(ps.Edges[i])+","+desc(pt.Edges[i])+","+desc(pp.Edges[i])+")")
	}
	sort.Strings(tuples)
	wantT := []string{"(0,a0,1)", "(a0,a1,1)", "(a0,a1,a2)"}
	r.Check(fmt.Sprint(tuples) == fmt.Sprint(wantT), "C19.R4", "range|roles", site,
		"per argument count (start,stop,step) = "+fmt.Sprint(tuples),
		"per argument count (start,stop,step) = "+fmt.Sprint(tuples)+", contract needs "+fmt.Sprint(wantT))
}

func isZeroConst(v ssa.Value) bool {
	c, ok := v.(*ssa.Const)
	return ok && c.Value != nil && c.Value.Kind() == constant.Int && c.Int64() == 0
}

// flowsInto reports whether value a is one of the phi inputs (transitively) of b, or b itself.
func flowsInto(a, b ssa.Value) bool {
	seen := map[ssa.Value]bool{}
	var rec func(v ssa.Value) bool
	rec = func(v ssa.Value) bool {
		if v == a {
			return true
		}
		if seen[v] {
			return false
		}
		seen[v] = true
		if phi, ok := v.(*ssa.Phi); ok {
			for _, e := range phi.Edges {
				if rec(e) {
					return true
				}
			}
		}
		return false
	}
	return rec(b)
}

// storesValueInto: sl is `slice new [1]T` whose element 0 was stored val.
func storesValueInto(sl ssa.Value, val ssa.Value) bool {
	s, ok := sl.(*ssa.Slice)
	if !ok {
		return false
	}
	al, ok := s.X.(*ssa.Alloc)
	if !ok {
		return false
	}
	for _, ref := range *al.Referrers() {
		ia, ok := ref.(*ssa.IndexAddr)
		if !ok {
			continue
		}
		for _, r2 := range *ia.Referrers() {
			if st, ok := r2.(*ssa.Store); ok && st.Addr == ssa.Value(ia) && st.Val == val {
				return true
			}
		}
	}
	return false
}

func c19Keys(p *Program, r *Report, fn *ssa.Function) {
	if fn == nil {
		r.Undecided("C19.R4", "keys", "core", "function literal bound to \"keys\" not found")
		return
	}
	site := p.Pos(fn.Pos())
	// find MapKeys call; result slice of len(MapKeys); loop i from 0 < len storing keys[i].Interface() at index i
	var mk *ssa.Call
	for _, b := range fn.Blocks {
		for _, in := range b.Instrs {
			if c, ok := in.(*ssa.Call); ok {
				if o := calleeObj(c); o != nil && isFuncNamed(o, "reflect", "Value", "MapKeys") {
					mk = c
				}
			}
		}
	}
	if mk == nil {
		r.Fail("C19.R4", "keys|MapKeys", site, "keys does not enumerate the map with reflect.Value.MapKeys")
		return
	}
	ok := false
	why := "no store of keys[i].Interface() into result[i] in a canonical loop over all keys"
	for _, b := range fn.Blocks {
		for _, in := range b.Instrs {
			st, isSt := in.(*ssa.Store)
			if !isSt {
				continue
			}
			dst, isIA := st.Addr.(*ssa.IndexAddr)
			if !isIA {
				continue
			}
			// value: (*keys[i]).Interface()
			c, isCall := st.Val.(*ssa.Call)
			if !isCall {
				continue
			}
			o := calleeObj(c)
			if o == nil || !isFuncNamed(o, "reflect", "Value", "Interface") || len(c.Call.Args) != 1 {
				continue
			}
			u, isU := c.Call.Args[0].(*ssa.UnOp)
			if !isU {
				continue
			}
			src, isIA2 := u.X.(*ssa.IndexAddr)
			if !isIA2 || src.X != ssa.Value(mk) {
				continue
			}
			if src.Index != dst.Index {
				why = "key i is stored at a different index"
				continue
			}
			if !isRangeIndex(src.Index, mk) {
				why = "loop does not run over all MapKeys entries"
				continue
			}
			// destination slice has len(MapKeys)
			if ms, isMS := dst.X.(*ssa.MakeSlice); isMS {
				if lc, isLen := ms.Len.(*ssa.Call); isLen {
					if bi, isB := lc.Call.Value.(*ssa.Builtin); isB && bi.Name() == "len" && lc.Call.Args[0] == ssa.Value(mk) {
						ok = true
					}
				}
			}
		}
	}
	r.Check(ok, "C19.R4", "keys|copy", site, "result[i] = MapKeys()[i].Interface() for i over all keys; result has len(MapKeys())", why)
	// non-map argument panics
	pan := false
	for _, b := range fn.Blocks {
		if _, isP := b.Instrs[len(b.Instrs)-1].(*ssa.Panic); isP {
			pan = true
		}
	}
	r.Check(pan, "C19.R4", "keys|non-map", site, "non-map argument panics (surfaces as an error at the call site)", "keys has no rejection path for non-map arguments")
}

func c19ToSlice(p *Program, r *Report, fn *ssa.Function) {
	if fn == nil {
		r.Undecided("C19.R4", "toSlice", "core", "core.toSlice not found")
		return
	}
	site := p.Pos(fn.Pos())
	// on the edge !(IsValid && ConvertibleTo) the value set is reflect.Zero(tt); on the other edge Convert(tt)
	zero, conv := false, false
	for _, b := range fn.Blocks {
		for _, in := range b.Instrs {
			c, ok := in.(*ssa.Call)
			if !ok {
				continue
			}
			o := calleeObj(c)
			if o == nil || !isFuncNamed(o, "reflect", "Value", "Set") {
				continue
			}
			arg := c.Call.Args[len(c.Call.Args)-1]
			if ac, ok := arg.(*ssa.Call); ok {
				if ao := calleeObj(ac); ao != nil {
					if isFuncNamed(ao, "reflect", "", "Zero") {
						zero = true
					}
					if isFuncNamed(ao, "reflect", "Value", "Convert") {
						// must be guarded by ConvertibleTo on the same type
						conv = guardedByCall(c.Block(), "ConvertibleTo")
					}
				}
			}
		}
	}
	r.Check(zero && conv, "C19.R4", "toSlice|zero", site, "convertible elements are converted under a ConvertibleTo guard, all others become reflect.Zero of the element type",
		"toSlice does not store Zero for unconvertible elements / converts without a ConvertibleTo guard")
}

// guardedByCall: block b is dominated by the true edge of an If whose condition is (or conjoins) a call to a method of the given name.
func guardedByCall(b *ssa.BasicBlock, method string) bool {
	for d := b; d != nil; d = d.Idom() {
		for _, pr := range d.Preds {
			iff, ok := pr.Instrs[len(pr.Instrs)-1].(*ssa.If)
			if !ok || pr.Succs[0] != d {
				continue
			}
			if c, ok := iff.Cond.(*ssa.Call); ok {
				if o := calleeObj(c); o != nil && o.Name() == method {
					return true
				}
			}
		}
	}
	return false
}

// c19ExactFirst (R5): an integer read from a numeral string is parsed exactly: a float parse whose result is truncated to an
// integer is only the fallback after the integer parse of the same string failed.
func c19ExactFirst(p *Program, r *Report) {
	n := 0
	for _, suffix := range []string{"core", "vm"} {
		sp := p.SSAPkg(suffix)
		if sp == nil {
			continue
		}
		for _, fn := range SrcFuncs(sp) {
			k := 0
			kp := 0
			for _, b := range fn.Blocks {
				for _, in := range b.Instrs {
					c, ok := in.(*ssa.Call)
					if !ok {
						continue
					}
					// the numeral strings of the builtins are decimal and 64 bits wide: a parse with base 0 reads "010" as 8
					// and "0x10" as 16, a narrower width refuses (or rounds) what Go's conversion of the same numeral gives
					if o := calleeObj(c); suffix == "core" && o != nil && (isFuncNamed(o, "strconv", "", "ParseInt") || isFuncNamed(o, "strconv", "", "ParseFloat")) {
						kp++
						isInt := o.Name() == "ParseInt"
						good, what := true, "64 bits"
						if isInt {
							what = "base 10, 64 bits"
							if !constIntEverywhere(c.Call.Args[1], 10) {
								good = false
							}
						}
						if !constIntEverywhere(c.Call.Args[len(c.Call.Args)-1], 64) {
							good = false
						}
						r.Check(good, "C19.R5", fmt.Sprintf("%s|%s #%d reads a decimal numeral of full width", funcName(fn), o.Name(), kp), p.Pos(c.Pos()), what,
							"a numeral string handed to a conversion builtin is not parsed as a decimal numeral of 64 bits ("+what+"): strings such as \"010\", \"0x10\" or a value beyond the narrower width no longer follow Go's decimal parsing")
					}
					strArg, isFP := floatParseOf(c)
					if !isFP {
						continue
					}
					// is the parsed float truncated to an integer?
					truncated := false
					for _, ref := range *c.Referrers() {
						ex, ok := ref.(*ssa.Extract)
						if !ok || ex.Index != 0 {
							continue
						}
						for _, r2 := range *ex.Referrers() {
							if cv, ok := r2.(*ssa.Convert); ok {
								if bt, ok := cv.Type().Underlying().(*types.Basic); ok && bt.Info()&types.IsInteger != 0 {
									truncated = true
								}
							}
						}
					}
					if !truncated {
						continue
					}
					n++
					k++
					inst := fmt.Sprintf("%s|truncated ParseFloat #%d", funcName(fn), k)
					// an integer parse of the same string whose failure edge dominates this call
					good := false
					for _, b2 := range fn.Blocks {
						for _, in2 := range b2.Instrs {
							pi, ok := in2.(*ssa.Call)
							if !ok {
								continue
							}
							if o2 := calleeObj(pi); o2 == nil || !isFuncNamed(o2, "strconv", "", "ParseInt") || !sameStringArg(pi.Call.Args[0], strArg) {
								continue
							}
							var errEx ssa.Value
							for _, ref := range *pi.Referrers() {
								if ex, ok := ref.(*ssa.Extract); ok && ex.Index == 1 {
									errEx = ex
								}
							}
							if errEx == nil {
								continue
							}
							for d := b; d != nil && d.Idom() != nil; d = d.Idom() {
								id := d.Idom()
								iff, ok := id.Instrs[len(id.Instrs)-1].(*ssa.If)
								if !ok {
									continue
								}
								bo, ok := iff.Cond.(*ssa.BinOp)
								if !ok || bo.X != errEx || !isNilConst(bo.Y) {
									continue
								}
								if (bo.Op == token.NEQ && edgeOnly(id, 0, d)) || (bo.Op == token.EQL && edgeOnly(id, 1, d)) {
									good = true
								}
							}
						}
					}
					r.Check(good, "C19.R5", inst, p.Pos(c.Pos()), "only after strconv.ParseInt of the same string failed", "a numeral string is read through float64 and truncated without trying the exact integer parse first: integers beyond 2^53 come out wrong")
				}
			}
		}
	}
	r.Floor("C19.R5", n, 1)
}

// constIntEverywhere: v is the integer constant want, or a parameter that every call site of its function (in the
// function's package) fills with that constant.
func constIntEverywhere(v ssa.Value, want int64) bool {
	if cst, ok := v.(*ssa.Const); ok {
		return cst.Value != nil && cst.Int64() == want
	}
	prm, ok := v.(*ssa.Parameter)
	if !ok || prm.Parent() == nil || prm.Parent().Pkg == nil {
		return false
	}
	fn := prm.Parent()
	idx := -1
	for i, q := range fn.Params {
		if q == prm {
			idx = i
		}
	}
	sites := 0
	for _, f2 := range SrcFuncs(fn.Pkg) {
		for _, b := range f2.Blocks {
			for _, in := range b.Instrs {
				ci, ok := in.(ssa.CallInstruction)
				if !ok {
					continue
				}
				if staticCallee(ci) != fn {
					// the function used as a value: its callers are not known
					for _, a := range ci.Common().Args {
						if a == ssa.Value(fn) {
							return false
						}
					}
					continue
				}
				sites++
				if idx >= len(ci.Common().Args) {
					return false
				}
				if cst, ok := ci.Common().Args[idx].(*ssa.Const); !ok || cst.Value == nil || cst.Int64() != want {
					return false
				}
			}
		}
	}
	return sites > 0
}

// sameStringArg: two string operands are the same value (same SSA value, or type assertions / conversions of the same source).
func sameStringArg(a, b ssa.Value) bool {
	src := func(v ssa.Value) ssa.Value {
		for i := 0; i < 4; i++ {
			switch x := v.(type) {
			case *ssa.TypeAssert:
				v = x.X
			case *ssa.Extract:
				v = x.Tuple
			case *ssa.ChangeType:
				v = x.X
			default:
				return v
			}
		}
		return v
	}
	return src(a) == src(b)
}

// c19TextConversions: R6 the first character of a string is its first rune: a byte of a string (s[i]) converted to a rune is
// reported unless the string is known to be a single byte; R7 a float64 is formatted with bitSize 64 (bitSize 32 only for a value
// that is a float32).
func c19TextConversions(p *Program, r *Report) {
	n6, n7 := 0, 0
	for _, suffix := range []string{"core", "vm"} {
		sp := p.SSAPkg(suffix)
		if sp == nil {
			continue
		}
		for _, fn := range SrcFuncs(sp) {
			k6, k7 := 0, 0
			for _, b := range fn.Blocks {
				for _, in := range b.Instrs {
					switch x := in.(type) {
					case *ssa.Convert:
						// rune(s[i])
						bt, ok := x.Type().Underlying().(*types.Basic)
						if !ok || bt.Kind() != types.Int32 {
							continue
						}
						var strV ssa.Value
						switch lk := x.X.(type) {
						case *ssa.Lookup:
							strV = lk.X
						case *ssa.Index:
							strV = lk.X
						}
						if strV == nil {
							continue
						}
						if st, ok := strV.Type().Underlying().(*types.Basic); !ok || st.Kind() != types.String {
							continue
						}
						n6++
						k6++
						r.Check(singleByteString(b, strV), "C19.R6", fmt.Sprintf("%s|byte of a string taken as a rune #%d", funcName(fn), k6), p.Pos(x.Pos()), "only where the string is known to hold one byte",
							"a byte of a string is converted to a rune: for a string that starts with a multi-byte character the result is the first UTF-8 byte, not the first character")
					case *ssa.Call:
						o := calleeObj(x)
						if o == nil || !isFuncNamed(o, "strconv", "", "FormatFloat") || len(x.Call.Args) != 4 {
							continue
						}
						bs, ok := x.Call.Args[3].(*ssa.Const)
						if !ok || bs.Value == nil || bs.Int64() != 32 {
							continue
						}
						n7++
						k7++
						r.Check(isFloat32Value(x.Call.Args[0], b), "C19.R7", fmt.Sprintf("%s|FormatFloat bitSize 32 #%d", funcName(fn), k7), p.Pos(x.Pos()), "the value is a float32",
							"a float64 is formatted as if it were a float32: it is rounded to about 7 significant digits (and overflows to Inf beyond the float32 range)")
					}
				}
			}
		}
	}
	r.Note("C19.R6 byte-to-rune sites", n6)
	r.Note("C19.R7 FormatFloat bitSize 32 sites", n7)
}

// singleByteString: in block b the string s is known to have length <= 1 (the branches with len(s) > 1 / < 1 have left).
func singleByteString(b *ssa.BasicBlock, s ssa.Value) bool {
	gt1, lt1 := false, false
	for d := b; d != nil && d.Idom() != nil; d = d.Idom() {
		id := d.Idom()
		iff, ok := id.Instrs[len(id.Instrs)-1].(*ssa.If)
		if !ok {
			continue
		}
		bo, ok := iff.Cond.(*ssa.BinOp)
		if !ok {
			continue
		}
		lc, ok := bo.X.(*ssa.Call)
		if !ok {
			continue
		}
		if bi, ok := lc.Call.Value.(*ssa.Builtin); !ok || bi.Name() != "len" || lc.Call.Args[0] != s {
			continue
		}
		c, ok := bo.Y.(*ssa.Const)
		if !ok || c.Value == nil || c.Int64() != 1 {
			continue
		}
		if bo.Op == token.GTR && edgeOnly(id, 1, d) {
			gt1 = true
		}
		if bo.Op == token.LSS && edgeOnly(id, 1, d) {
			lt1 = true
		}
		if bo.Op == token.EQL && edgeOnly(id, 0, d) {
			gt1, lt1 = true, true
		}
	}
	_ = lt1
	return gt1
}

// isFloat32Value: v is a float32 widened to float64, or the Float() of a reflect.Value known (by a dominating kind test) to be a Float32.
func isFloat32Value(v ssa.Value, b *ssa.BasicBlock) bool {
	if cv, ok := v.(*ssa.Convert); ok {
		if bt, ok := cv.X.Type().Underlying().(*types.Basic); ok && bt.Kind() == types.Float32 {
			return true
		}
	}
	if c, ok := v.(*ssa.Call); ok && reflectMethod(c) == "Float" {
		return dominatedByKind(b, 13)
	}
	return false
}

// c19ConvertGuarded (R8): in the builtins, reflect.Value.Convert(t) runs only where Type().ConvertibleTo(t) said yes: the
// conversion builtins must give 0 / false / the zero value for values that cannot be converted, not fail (Convert panics) -
// and must not skip the conversion for values that can.
func c19ConvertGuarded(p *Program, r *Report) {
	sp := p.SSAPkg("core")
	if sp == nil {
		return
	}
	n := 0
	for _, fn := range SrcFuncs(sp) {
		k := 0
		for _, b := range fn.Blocks {
			for _, in := range b.Instrs {
				c, ok := in.(*ssa.Call)
				if !ok || reflectMethod(c) != "Convert" {
					continue
				}
				n++
				k++
				good := false
				for d := b; d != nil && d.Idom() != nil && !good; d = d.Idom() {
					id := d.Idom()
					iff, ok := id.Instrs[len(id.Instrs)-1].(*ssa.If)
					if !ok {
						continue
					}
					// `a && b` conditions arrive as chains: look through the conjunction
					cc, ok := iff.Cond.(*ssa.Call)
					if !ok || !cc.Call.IsInvoke() || cc.Call.Method.Name() != "ConvertibleTo" {
						continue
					}
					if sameTypeValue(cc.Call.Args[0], c.Call.Args[1]) && edgeOnly(id, 0, d) {
						good = true
					}
				}
				r.Check(good, "C19.R8", fmt.Sprintf("%s|Convert #%d guarded", funcName(fn), k), p.Pos(c.Pos()), "only on the true side of ConvertibleTo for the same type",
					"a builtin converts a value with reflect.Value.Convert where ConvertibleTo of that type did not say yes (missing, negated or for another type): convertible values are not converted, or unconvertible ones make the builtin fail instead of yielding the zero value")
			}
		}
	}
	r.Floor("C19.R8", n, 4)
}

// sameTypeValue: two reflect.Type operands denote the same type (same SSA value, or reflect.TypeOf of equal constants).
func sameTypeValue(a, b ssa.Value) bool {
	if a == b {
		return true
	}
	ca, ok1 := a.(*ssa.Call)
	cb, ok2 := b.(*ssa.Call)
	if ok1 && ok2 {
		oa, ob := calleeObj(ca), calleeObj(cb)
		if oa != nil && ob != nil && isFuncNamed(oa, "reflect", "", "TypeOf") && isFuncNamed(ob, "reflect", "", "TypeOf") {
			ma, okA := ca.Call.Args[0].(*ssa.MakeInterface)
			mb, okB := cb.Call.Args[0].(*ssa.MakeInterface)
			return okA && okB && types.Identical(ma.X.Type(), mb.X.Type())
		}
	}
	return false
}

// floatParseOf: c parses a string as a float: strconv.ParseFloat itself, or a function of the module whose first result is the
// value strconv.ParseFloat gives for one of its string parameters (`func parseNumber(s string) (float64, bool)`); returns the
// string that is parsed, as the caller sees it.
func floatParseOf(c *ssa.Call) (ssa.Value, bool) {
	if o := calleeObj(c); o != nil && isFuncNamed(o, "strconv", "", "ParseFloat") {
		return c.Call.Args[0], true
	}
	callee := staticCallee(c)
	if callee == nil || len(callee.Blocks) == 0 || callee.Pkg == nil || !strings.HasPrefix(callee.Pkg.Pkg.Path(), modPath) || callee.Signature.Results().Len() < 1 {
		return nil, false
	}
	if bt, ok := callee.Signature.Results().At(0).Type().Underlying().(*types.Basic); !ok || bt.Kind() != types.Float64 {
		return nil, false
	}
	for _, b := range callee.Blocks {
		for _, in := range b.Instrs {
			pc, ok := in.(*ssa.Call)
			if !ok {
				continue
			}
			if o := calleeObj(pc); o == nil || !isFuncNamed(o, "strconv", "", "ParseFloat") {
				continue
			}
			for i, prm := range callee.Params {
				if pc.Call.Args[0] == ssa.Value(prm) && i < len(c.Call.Args) {
					// its value is what the function returns first
					for _, ref := range *pc.Referrers() {
						ex, ok := ref.(*ssa.Extract)
						if !ok || ex.Index != 0 {
							continue
						}
						for _, b2 := range callee.Blocks {
							if ret, ok := b2.Instrs[len(b2.Instrs)-1].(*ssa.Return); ok && len(ret.Results) > 0 {
								if ret.Results[0] == ssa.Value(ex) {
									return c.Call.Args[i], true
								}
								if u, ok := ret.Results[0].(*ssa.UnOp); ok {
									if al, ok := u.X.(*ssa.Alloc); ok {
										for _, r2 := range *al.Referrers() {
											if st, ok := r2.(*ssa.Store); ok && st.Val == ssa.Value(ex) {
												return c.Call.Args[i], true
											}
										}
									}
								}
							}
						}
					}
				}
			}
		}
	}
	return nil, false
}

// c19ParseResultUsed (R9): the value a strconv parse returns is used only where its error is nil (the other side holds a partial
// or zero result): in the builtins, the literal conversion and the numeric converters of vm.
func c19ParseResultUsed(p *Program, r *Report) {
	n := 0
	for _, suffix := range []string{"core", "vm", "parser"} {
		sp := p.SSAPkg(suffix)
		if sp == nil {
			continue
		}
		for _, fn := range SrcFuncs(sp) {
			k := 0
			for _, b := range fn.Blocks {
				for _, in := range b.Instrs {
					c, ok := in.(*ssa.Call)
					if !ok {
						continue
					}
					o := calleeObj(c)
					if o == nil || o.Pkg() == nil || o.Pkg().Path() != "strconv" || !strings.HasPrefix(o.Name(), "Parse") {
						continue
					}
					var val, errV *ssa.Extract
					for _, ref := range *c.Referrers() {
						if ex, ok := ref.(*ssa.Extract); ok {
							if ex.Index == 0 {
								val = ex
							} else {
								errV = ex
							}
						}
					}
					if val == nil || errV == nil {
						continue
					}
					n++
					k++
					bad := ""
					var uses []ssa.Instruction
					var collect func(v ssa.Value, depth int)
					collect = func(v ssa.Value, depth int) {
						if depth > 3 {
							return
						}
						for _, ref := range *v.Referrers() {
							switch x := ref.(type) {
							case *ssa.DebugRef:
							case *ssa.Phi:
								collect(x, depth+1)
							case *ssa.Store:
								// a result variable or a local: follow the loads
								if al, ok := x.Addr.(*ssa.Alloc); ok {
									for _, r2 := range *al.Referrers() {
										if u, ok := r2.(*ssa.UnOp); ok {
											for _, r3 := range *u.Referrers() {
												if _, isDbg := r3.(*ssa.DebugRef); !isDbg {
													uses = append(uses, r3)
												}
											}
										}
									}
								} else {
									uses = append(uses, x)
								}
							default:
								uses = append(uses, ref)
							}
						}
					}
					collect(val, 0)
					// handing the value back together with its error (or with `err == nil` as an ok flag) is not a use: the helper's
					// caller decides by that error or flag
					derivedFromErr := func(v ssa.Value) bool {
						if v == ssa.Value(errV) {
							return true
						}
						if bo, ok := v.(*ssa.BinOp); ok && (bo.X == ssa.Value(errV) || bo.Y == ssa.Value(errV)) {
							return true
						}
						if u, ok := v.(*ssa.UnOp); ok {
							if al, ok := u.X.(*ssa.Alloc); ok {
								for _, ref := range *al.Referrers() {
									if st, ok := ref.(*ssa.Store); ok && st.Addr == ssa.Value(al) {
										if st.Val == ssa.Value(errV) {
											return true
										}
										if bo, ok := st.Val.(*ssa.BinOp); ok && (bo.X == ssa.Value(errV) || bo.Y == ssa.Value(errV)) {
											return true
										}
									}
								}
							}
						}
						return false
					}
					for _, u := range uses {
						if ret, ok := u.(*ssa.Return); ok && len(ret.Results) >= 2 {
							withErr := false
							for _, res := range ret.Results {
								if derivedFromErr(res) {
									withErr = true
								}
							}
							if withErr {
								continue
							}
						}
						if !onNilErrorSide(u.Block(), errV) {
							bad = p.Pos(instrPos(u))
						}
					}
					r.Check(bad == "", "C19.R9", fmt.Sprintf("%s|%s #%d result used only without error", funcName(fn), o.Name(), k), p.Pos(c.Pos()), "every use lies on the err == nil side",
						"the value returned by strconv."+o.Name()+" is used at "+bad+" where its error is not known to be nil: a failed parse yields a partial or zero value as if it were the number")
				}
			}
		}
	}
	r.Floor("C19.R9", n, 8)
}

// onNilErrorSide: block b is only reached when error value e compared nil (directly or through a local it was stored into).
func onNilErrorSide(b *ssa.BasicBlock, e ssa.Value) bool {
	same := func(v ssa.Value) bool {
		if v == e {
			return true
		}
		// a load of a local the error was stored into
		if u, ok := v.(*ssa.UnOp); ok {
			if al, ok := u.X.(*ssa.Alloc); ok {
				for _, ref := range *al.Referrers() {
					if st, ok := ref.(*ssa.Store); ok && st.Val == e {
						return true
					}
				}
			}
		}
		if ph, ok := v.(*ssa.Phi); ok {
			for _, x := range ph.Edges {
				if x == e {
					return true
				}
			}
		}
		return false
	}
	for d := b; d != nil && d.Idom() != nil; d = d.Idom() {
		id := d.Idom()
		iff, ok := id.Instrs[len(id.Instrs)-1].(*ssa.If)
		if !ok {
			continue
		}
		bo, ok := iff.Cond.(*ssa.BinOp)
		if !ok || !isNilConst(bo.Y) || !same(bo.X) {
			continue
		}
		if (bo.Op == token.EQL && edgeOnly(id, 0, d)) || (bo.Op == token.NEQ && edgeOnly(id, 1, d)) {
			return true
		}
	}
	return false
}

// c19InvalidExit (R10): the shortcut "no value: give the zero result" is taken on the not-valid side of IsValid().
func c19InvalidExit(p *Program, r *Report) {
	sp := p.SSAPkg("core")
	if sp == nil {
		return
	}
	n := 0
	for _, fn := range SrcFuncs(sp) {
		k := 0
		for _, b := range fn.Blocks {
			iff, ok := b.Instrs[len(b.Instrs)-1].(*ssa.If)
			if !ok {
				continue
			}
			cond, neg := iff.Cond, false
			if u, ok := cond.(*ssa.UnOp); ok && u.Op == token.NOT {
				cond, neg = u.X, true
			}
			c, ok := cond.(*ssa.Call)
			if !ok || reflectMethod(c) != "IsValid" {
				continue
			}
			validSucc := b.Succs[0]
			if neg {
				validSucc = b.Succs[1]
			}
			// a block that only returns constants
			trivial := false
			if len(validSucc.Instrs) == 1 {
				if ret, ok := validSucc.Instrs[0].(*ssa.Return); ok {
					trivial = true
					for _, res := range ret.Results {
						if _, isC := res.(*ssa.Const); !isC {
							trivial = false
						}
					}
				}
			}
			n++
			k++
			r.Check(!trivial, "C19.R10", fmt.Sprintf("%s|IsValid test #%d", funcName(fn), k), p.Pos(instrPos(iff)), "the zero-result shortcut is on the invalid side", "a builtin returns its zero result at once for every VALID argument (the IsValid test is flipped)")
		}
	}
	r.Floor("C19.R10", n, 3)
}

// c19Describes (R11): typeOf / kindOf name the type / kind of the argument itself: every non-constant result is
// reflect.TypeOf(arg).String() (resp. .Kind().String()), or the same through reflect.ValueOf(arg); nothing is unwrapped
// or dereferenced on the way.
func c19Describes(p *Program, r *Report, name string, fn *ssa.Function, kind bool) {
	if fn == nil || len(fn.Params) != 1 {
		r.Undecided("C19.R11", name+"|describes its argument", "core", "builtin "+name+" is not a one-parameter function literal")
		return
	}
	arg := fn.Params[0]
	isArg := func(v ssa.Value) bool {
		for {
			switch x := v.(type) {
			case *ssa.ChangeInterface:
				v = x.X
				continue
			case *ssa.MakeInterface:
				v = x.X
				continue
			}
			break
		}
		return v == ssa.Value(arg)
	}
	var valueOfArg, typeOfArg func(v ssa.Value, d int) string
	valueOfArg = func(v ssa.Value, d int) string {
		c, ok := v.(*ssa.Call)
		if !ok || d > 6 {
			return "the reflect.Value described is not reflect.ValueOf(argument)"
		}
		o := calleeObj(c)
		if isFuncNamed(o, "reflect", "", "ValueOf") && isArg(c.Call.Args[0]) {
			return ""
		}
		if o != nil {
			return "the value described comes from " + o.FullName() + ", not from reflect.ValueOf(argument)"
		}
		return "the reflect.Value described is not reflect.ValueOf(argument)"
	}
	typeOfArg = func(v ssa.Value, d int) string {
		c, ok := v.(*ssa.Call)
		if !ok || d > 6 {
			return "the reflect.Type described is not reflect.TypeOf(argument)"
		}
		o := calleeObj(c)
		if isFuncNamed(o, "reflect", "", "TypeOf") && isArg(c.Call.Args[0]) {
			return ""
		}
		if isFuncNamed(o, "reflect", "Value", "Type") {
			return valueOfArg(c.Call.Args[0], d+1)
		}
		if o != nil {
			return "the type described comes from " + o.FullName() + ", not from reflect.TypeOf(argument)"
		}
		return "the reflect.Type described is not reflect.TypeOf(argument)"
	}
	n := 0
	var results func(v ssa.Value, seen map[ssa.Value]bool) string
	results = func(v ssa.Value, seen map[ssa.Value]bool) string {
		if seen[v] {
			return ""
		}
		seen[v] = true
		switch x := v.(type) {
		case *ssa.Const:
			return ""
		case *ssa.Phi:
			for _, e := range x.Edges {
				if w := results(e, seen); w != "" {
					return w
				}
			}
			return ""
		case *ssa.Call:
			o := calleeObj(x)
			n++
			if !kind && o != nil && o.Name() == "String" && x.Call.IsInvoke() {
				return typeOfArg(x.Call.Value, 0)
			}
			if kind && isFuncNamed(o, "reflect", "Kind", "String") {
				kc, ok := x.Call.Args[0].(*ssa.Call)
				if !ok {
					return "the kind described is not computed from the argument"
				}
				ko := calleeObj(kc)
				if ko != nil && ko.Name() == "Kind" && kc.Call.IsInvoke() {
					return typeOfArg(kc.Call.Value, 0)
				}
				if isFuncNamed(ko, "reflect", "Value", "Kind") {
					return valueOfArg(kc.Call.Args[0], 0)
				}
				return "the kind described is not computed from the argument"
			}
			return "the result is not the String() of the argument's type/kind"
		}
		return "the result is not the String() of the argument's type/kind"
	}
	why := ""
	for _, b := range fn.Blocks {
		if ret, ok := b.Instrs[len(b.Instrs)-1].(*ssa.Return); ok && len(ret.Results) == 1 {
			if w := results(ret.Results[0], map[ssa.Value]bool{}); w != "" {
				why = w
			}
		}
	}
	if why == "" && n == 0 {
		why = "no result is computed from the argument"
	}
	r.Check(why == "", "C19.R11", name+"|describes its argument", p.Pos(fn.Pos()), "every computed result is the String() of the type/kind of the argument itself",
		why+": "+name+" names the type or kind of something else than the value it was given (a pointer is reported as what it points to)")
}

// c19ImportFresh (R12): what `import` yields is a scope made in that very evaluation (and so filled from the package tables
// there and then): a scope obtained from anywhere else carries whatever earlier scripts assigned in it, and a name is then no
// longer bound to the Go function the table lists under it.
func c19ImportFresh(p *Program, r *Report) {
	r.Explain("R12 the scope import yields is created by an env constructor in the same evaluation.")
	m, err := buildVMModel(p)
	if err != nil {
		r.Undecided("C19.R12", "import|model", "vm", err.Error())
		return
	}
	h := m.handlers["expr"]["ImportExpr"]
	if h == nil {
		r.Undecided("C19.R12", "import|handler", "vm", "no handler for ImportExpr found")
		return
	}
	base := m.baseOf(h)
	n := 0
	for _, b := range h.Blocks {
		for _, in := range b.Instrs {
			st, ok := in.(*ssa.Store)
			if !ok || m.cellAddr(st.Addr, base) != "rv" {
				continue
			}
			c, ok := st.Val.(*ssa.Call)
			if !ok || !isFuncNamed(calleeObj(c), "reflect", "", "ValueOf") {
				continue
			}
			x := c.Call.Args[0]
			if mi, ok := x.(*ssa.MakeInterface); ok {
				x = mi.X
			}
			n++
			fresh := false
			if sv := spilledValue(x); sv != nil {
				x = sv
			}
			if mk, ok := x.(*ssa.Call); ok {
				if callee := staticCallee(mk); callee != nil && callee.Pkg != nil && callee.Pkg.Pkg.Path() == modPath+"/env" && childOrNew(callee) {
					fresh = true
				}
			}
			r.Check(fresh, "C19.R12", fmt.Sprintf("import|scope #%d made in this evaluation", n), p.Pos(st.Pos()), "the scope handed to the script is created by an env constructor in the same evaluation",
				"import hands the script a scope that was not created in this evaluation (kept from an earlier one): assignments a script made to its members are what every later import sees, so a name no longer denotes the Go function listed under it")
		}
	}
	r.Floor("C19.R12", n, 1)
}

// childOrNew: an env constructor: every *Env it returns is allocated in the call.
func childOrNew(fn *ssa.Function) bool {
	if len(fn.Blocks) == 0 {
		return false
	}
	for _, b := range fn.Blocks {
		ret, ok := b.Instrs[len(b.Instrs)-1].(*ssa.Return)
		if !ok || len(ret.Results) == 0 {
			continue
		}
		if _, ok := ret.Results[0].(*ssa.Alloc); !ok {
			return false
		}
	}
	return true
}

// c19LenIsLen (R13): what the len expression yields is reflect's Len() of the operand, for every kind it accepts: every integer it
// boxes as its result is a conversion of Value.Len() applied to the evaluated operand. (A character count for strings is not Go's
// len, and disagrees with indexing and slicing, which count bytes.)
func c19LenIsLen(p *Program, r *Report) {
	m, err := buildVMModel(p)
	if err != nil {
		return
	}
	h := m.handlers["expr"]["LenExpr"]
	if h == nil {
		r.Undecided("C19.R13", "len|handler", "vm", "no handler for the len expression found")
		return
	}
	base := m.baseOf(h)
	n := 0
	for _, b := range h.Blocks {
		for _, in := range b.Instrs {
			st, ok := in.(*ssa.Store)
			if !ok || m.cellAddr(st.Addr, base) != "rv" {
				continue
			}
			c, ok := st.Val.(*ssa.Call)
			if !ok {
				continue
			}
			callee := staticCallee(c)
			if callee == nil || callee.Pkg != m.sp || len(c.Call.Args) != 1 {
				continue
			}
			bt, ok := c.Call.Args[0].Type().(*types.Basic)
			if !ok || bt.Info()&types.IsInteger == 0 {
				continue
			}
			n++
			arg := c.Call.Args[0]
			if cv, ok := arg.(*ssa.Convert); ok {
				arg = cv.X
			}
			okLen := false
			if lc, ok := arg.(*ssa.Call); ok && reflectMethod(lc) == "Len" {
				x := lc.Call.Args[0]
				if sv := spilledValue(x); sv != nil {
					x = sv
				}
				if u, ok := x.(*ssa.UnOp); ok && m.cellAddr(u.X, base) == "rv" {
					okLen = true
				}
			}
			r.Check(okLen, "C19.R13", fmt.Sprintf("len|result #%d is Value.Len() of the operand", n), p.Pos(st.Pos()), "the boxed integer is a conversion of reflect.Value.Len() of the evaluated operand",
				"the length the len expression yields is not reflect.Value.Len() of its operand (for some kind it is computed another way): it is no longer Go's len for that kind, and disagrees with indexing and slicing of the same value")
		}
	}
	r.Floor("C19.R13", n, 1)
}

// c19RuneToByte (R15): a character becomes text through Go's string(rune) conversion (UTF-8). A builtin that narrows a rune (or
// any wider integer) to a byte and builds text from it is right for ASCII only: the narrowing must lie under an upper-bound
// test of that very value against at most 0x7F (`< 0x80`, utf8.RuneSelf). 0x80..0xFF as single bytes are not characters
// but invalid UTF-8. Evaluated over package core; no such narrowing exists today and the rule says so.
func c19RuneToByte(p *Program, r *Report) {
	csp := p.SSAPkg("core")
	if csp == nil {
		return
	}
	n := 0
	for _, fn := range SrcFuncs(csp) {
		k := 0
		for _, b := range fn.Blocks {
			for _, in := range b.Instrs {
				cv, ok := in.(*ssa.Convert)
				if !ok {
					continue
				}
				to, ok1 := cv.Type().Underlying().(*types.Basic)
				from, ok2 := cv.X.Type().Underlying().(*types.Basic)
				if !ok1 || !ok2 || to.Kind() != types.Uint8 || from.Info()&types.IsInteger == 0 || from.Kind() == types.Uint8 || from.Kind() == types.Int8 {
					continue
				}
				if _, isConst := cv.X.(*ssa.Const); isConst {
					continue
				}
				k++
				n++
				bounded := false
				for d := b; d != nil && d.Idom() != nil; d = d.Idom() {
					id := d.Idom()
					iff, ok := id.Instrs[len(id.Instrs)-1].(*ssa.If)
					if !ok {
						continue
					}
					bo, ok := iff.Cond.(*ssa.BinOp)
					if !ok || bo.X != cv.X {
						continue
					}
					c, ok := bo.Y.(*ssa.Const)
					if !ok || c.Value == nil {
						continue
					}
					K := c.Int64()
					switch {
					case bo.Op == token.LSS && K <= 128 && edgeOnly(id, 0, d), bo.Op == token.LEQ && K <= 127 && edgeOnly(id, 0, d),
						bo.Op == token.GEQ && K <= 128 && edgeOnly(id, 1, d), bo.Op == token.GTR && K <= 127 && edgeOnly(id, 1, d):
						bounded = true
					}
				}
				r.Check(bounded, "C19.R15", fmt.Sprintf("%s|integer narrowed to a byte #%d only below 0x80", funcName(fn), k), p.Pos(instrPos(cv)), "under an upper-bound test against at most 0x7F",
					"a rune or wider integer is narrowed to a byte without a test that it is below 0x80: for 0x80..0xFF the text built from that byte is invalid UTF-8, not the character Go's string conversion gives (toChar(233) must be \"é\")")
			}
		}
	}
	if n == 0 {
		r.OK("C19.R15", "core|no integer is narrowed to a byte", "core", "characters become text through string(rune) only")
	}
}
