package main

import (
	"fmt"
	"go/token"
	"go/types"
	"strings"

	"golang.org/x/tools/go/ssa"
)

func init() { register("C02", "cancelling the context always stops a running script", checkC02) }

// isCtxDone: v is <ctx>.Done() where <ctx> is the ctx cell of base.
func (m *vmModel) isCtxDone(v ssa.Value, base ssa.Value) bool {
	c, ok := v.(*ssa.Call)
	if !ok || !c.Call.IsInvoke() || c.Call.Method.Name() != "Done" {
		return false
	}
	return m.cellLoad(c.Call.Value, base) == "ctx"
}

// pollPoints: non-blocking selects on the record's context.
func (m *vmModel) pollPoints(fn *ssa.Function) []*ssa.Select {
	base := m.baseOf(fn)
	var out []*ssa.Select
	for _, b := range fn.Blocks {
		for _, in := range b.Instrs {
			if s, ok := in.(*ssa.Select); ok && !s.Blocking {
				for _, st := range s.States {
					if st.Dir == types.RecvOnly && m.isCtxDone(st.Chan, base) {
						out = append(out, s)
					}
				}
			}
		}
	}
	return out
}

// firedEdge returns the block entered when select case `idx` fired.
func selectFired(s *ssa.Select, idx int64) *ssa.BasicBlock {
	for _, ref := range *s.Referrers() {
		ex, ok := ref.(*ssa.Extract)
		if !ok || ex.Index != 0 {
			continue
		}
		for _, r2 := range *ex.Referrers() {
			bo, ok := r2.(*ssa.BinOp)
			if !ok || bo.Op != token.EQL {
				continue
			}
			if c, ok := bo.Y.(*ssa.Const); ok && c.Int64() == idx {
				for _, r3 := range *bo.Referrers() {
					if iff, ok := r3.(*ssa.If); ok {
						return iff.Block().Succs[0]
					}
				}
			}
		}
	}
	return nil
}

// interruptExit: from block start, ErrInterrupt is stored to the err cell and a return is reached without any evaluation.
func (m *vmModel) interruptExit(fn *ssa.Function, start *ssa.BasicBlock, ea *errAnalysis, va *evalAnalysis) (bool, string) {
	base := m.baseOf(fn)
	bInt := ea.sentinel("ErrInterrupt")
	stored := false
	for b := range reachable(start, nil) {
		for _, in := range b.Instrs {
			if st, ok := in.(*ssa.Store); ok && m.cellAddr(st.Addr, base) == "err" && b == start {
				fl := &errFlow{a: ea, fn: fn, base: base, ent: ea.entry[fn]}
				if fl.abs(st.Val, ea.before[fn][st], 0) == bInt {
					stored = true
				}
			}
		}
	}
	if !stored {
		return false, "the interrupt branch does not store ErrInterrupt"
	}
	// every return reachable from start must still see ErrInterrupt possible, and no evaluation may be reachable with it pending…
	for b := range reachable(start, nil) {
		for _, in := range b.Instrs {
			if c, ok := in.(*ssa.Call); ok && m.evalRole(c, base) != "" {
				if st := ea.before[fn][c]; st != nil && st.cell&bInt != 0 {
					return false, "an evaluation can follow the interrupt"
				}
			}
		}
	}
	return true, ""
}

func checkC02(p *Program, r *Report) {
	r.Explain("C02: timing is a runtime quantity; decided are the structural necessary conditions. " +
		"R1 the statement dispatcher begins with a poll of the run's context (non-blocking select on ctx.Done() of the current record) that dominates every dispatch; the fired branch stores ErrInterrupt and returns without evaluating. " +
		"R2 every cycle of the interpreter that evaluates script code and is not bounded by the length of a list in the program text contains a poll or a call of the polling statement dispatcher (cycle test after deleting those blocks). " +
		"R3 every operation a script can block on (reflect.Select, Recv, Send, native select/receive/send) is a reflect.Select whose case 0 receives from ctx.Done() of the current record, and chosen == 0 stores ErrInterrupt and leaves without evaluating. " +
		"R4 context threading: records take their context from a context parameter; every context handed to a script function or to reflect.ValueOf comes from the current record's ctx cell, the function's own context parameter or the incoming argument list — never from a captured record; context.Background/TODO only in the convenience wrappers. " +
		"R5 ErrInterrupt is never wrapped into an ordinary error and never overwritten outside the recover handler and the deferred-call runner (whose precedence rule is C09.R3). " +
		"R8 in a loop that runs the elements of a statement list one after the other, every evaluation of an element (or of a part of it) is preceded, in the same iteration, by a context poll: the statements that follow a cancellation do not run. " +
		"R7 no evaluation of script code starts at a point where the error cell can hold ErrInterrupt (the script does not carry on after the cancellation).")
	r.Assume("the length of the 'short bounded time', time inside one host Go call and fairness of reflect.Select are not decided")
	m, err := buildVMModel(p)
	if err != nil {
		r.Undecided("C02.R1", "model", "vm", err.Error())
		return
	}
	ea := buildErrAnalysis(m)
	va := ea.va
	bInt := ea.sentinel("ErrInterrupt")
	if bInt == 0 {
		r.Undecided("C02.R1", "ErrInterrupt", "vm", "interrupt sentinel not found")
		return
	}

	// R1: entry poll of the statement dispatcher
	entryPoll := map[*ssa.Function]bool{}
	{
		fn := m.evalStmt
		polls := m.pollPoints(fn)
		fname := funcName(fn)
		if len(polls) == 0 {
			r.Fail("C02.R1", fname+"|entry-poll", p.Pos(fn.Pos()), "the statement dispatcher does not poll the run's context")
		} else {
			s := polls[0]
			dom := true
			for _, b := range fn.Blocks {
				for _, in := range b.Instrs {
					switch x := in.(type) {
					case *ssa.TypeAssert:
						if !instrDominates(s, x) {
							dom = false
						}
					case *ssa.Call:
						if m.calleeOnBase(x, m.baseOf(fn)) != nil && !instrDominates(s, x) {
							dom = false
						}
					}
				}
			}
			fired := selectFired(s, 0)
			okExit, why := false, "cannot find the branch taken when the context is done"
			if fired != nil {
				okExit, why = m.interruptExit(fn, fired, ea, va)
			}
			r.Check(dom, "C02.R1", fname+"|entry-poll", p.Pos(s.Pos()), "the poll dominates every dispatch", "a statement can be dispatched without polling the context first")
			r.Check(okExit, "C02.R1", fname+"|poll-exit", p.Pos(s.Pos()), "a done context stores ErrInterrupt and returns", why)
			if dom && okExit {
				entryPoll[fn] = true
			}
		}
		// wrappers that do nothing but call an entry-poll function first
		for changed := true; changed; {
			changed = false
			for _, f2 := range m.funcsOnRecord() {
				if entryPoll[f2] {
					continue
				}
				base := m.baseOf(f2)
				var first *ssa.Call
				for _, b := range f2.Blocks {
					for _, in := range b.Instrs {
						if c, ok := in.(*ssa.Call); ok && first == nil && m.calleeOnBase(c, base) != nil {
							first = c
						}
					}
				}
				if first != nil && entryPoll[staticCallee(first)] && len(va.events[f2]) <= 1 && len(m.envStores(f2)) == 0 {
					onlyCall := true
					for _, b := range f2.Blocks {
						for _, in := range b.Instrs {
							if c, ok := in.(*ssa.Call); ok && c != first && m.calleeOnBase(c, base) != nil {
								onlyCall = false
							}
						}
					}
					if onlyCall {
						entryPoll[f2] = true
						changed = true
					}
				}
			}
		}
	}

	// R2: cycles
	nLoops, nSeq, nSeqEv := 0, 0, 0
	for _, fn := range m.funcsOnRecord() {
		base := m.baseOf(fn)
		fname := funcName(fn)
		polls := map[*ssa.BasicBlock]bool{}
		for _, s := range m.pollPoints(fn) {
			polls[s.Block()] = true
		}
		for _, b := range fn.Blocks {
			for _, in := range b.Instrs {
				c, ok := in.(*ssa.Call)
				if !ok {
					continue
				}
				if callee := m.calleeOnBase(c, base); callee != nil && entryPoll[callee] {
					polls[b] = true
				}
				// a blocking select on the context is a poll as well
				if o := calleeObj(c); o != nil && isFuncNamed(o, "reflect", "", "Select") {
					polls[b] = true
				}
			}
		}
		for li, l := range loopsOf(fn) {
			evaluates := false
			listLoop := false
			for b := range l.Body {
				for _, in := range b.Instrs {
					c, ok := in.(*ssa.Call)
					if !ok {
						continue
					}
					if m.evalRole(c, base) != "" {
						evaluates = true
					} else if callee := m.calleeOnBase(c, base); callee != nil && va.mayWrite[callee] {
						evaluates = true
					}
				}
			}
			if !evaluates {
				continue
			}
			// program-bounded: the loop evaluates successive elements of a list of the node (index = this loop's induction variable)
			for _, e := range va.events[fn] {
				if !l.Body[e.call.Block()] {
					continue
				}
				for _, o := range e.operands {
					rest := o
					for strings.HasPrefix(o, "node.") {
						i := strings.Index(rest, "[")
						if i < 0 {
							break
						}
						j := strings.Index(rest[i:], "]")
						name := rest[i+1 : i+j]
						rest = rest[i+j+1:]
						if v, ok := va.idx(fn)[name]; ok {
							var phi *ssa.Phi
							switch x := v.(type) {
							case *ssa.Phi:
								phi = x
							case *ssa.BinOp:
								phi, _ = x.X.(*ssa.Phi)
							}
							if phi != nil && phi.Block() == l.Header {
								listLoop = true
							}
						}
					}
				}
			}
			if !listLoop {
				// the same for a list of nodes that reached this function as a parameter or a local (a helper that is handed
				// `stmt.Cases` or `callExpr.SubExprs`): the loop's own induction variable indexes a slice of parsed nodes
				for b := range l.Body {
					for _, in := range b.Instrs {
						ia, ok := in.(*ssa.IndexAddr)
						if !ok {
							continue
						}
						st, ok := ia.X.Type().Underlying().(*types.Slice)
						if !ok {
							continue
						}
						if cat, _ := m.nm.catOf(st.Elem()); cat == "" {
							continue
						}
						var phi *ssa.Phi
						switch x := ia.Index.(type) {
						case *ssa.Phi:
							phi = x
						case *ssa.BinOp:
							phi, _ = x.X.(*ssa.Phi)
						}
						if phi != nil && phi.Block() == l.Header {
							listLoop = true
						}
					}
				}
			}
			nLoops++
			inst := fname
			if li > 0 {
				inst = fmt.Sprintf("%s loop#%d", fname, li+1)
			}
			site := p.Pos(instrPos(l.Header.Instrs[0]))
			if listLoop {
				r.OK("C02.R2", inst+"|bounded", site, "iterations bounded by the length of a list in the program text")
				continue
			}
			// cycle test: header reachable from its in-loop successors avoiding poll blocks
			cyc := false
			if !polls[l.Header] {
				for _, s := range l.Header.Succs {
					if !l.Body[s] {
						continue
					}
					reach := reachable(s, func(b *ssa.BasicBlock) bool { return polls[b] || !l.Body[b] })
					if reach[l.Header] {
						cyc = true
					}
				}
			}
			r.Check(!cyc, "C02.R2", inst+"|polls", site, "every cycle passes a context poll or the polling statement dispatcher", "this loop can go round without ever looking at the context: a cancelled script keeps running")
		}
		// R8: a loop that runs the elements of a list one after the other *as statements* is the sequence of a block. No element
		// (and no part of one, when a statement kind is handled in place) is evaluated in an iteration that has not looked at the
		// context first: "no construct can carry on executing further statements" - the list being finite does not help, every
		// statement may be a host call.
		for _, l := range loopsOf(fn) {
			elem := ""
			for _, e := range va.events[fn] {
				if e.role != "stmt" || !l.Body[e.call.Block()] {
					continue
				}
				for _, o := range e.operands {
					if !strings.HasPrefix(o, "node.") || !strings.HasSuffix(o, "]") || strings.Contains(o, "].") {
						continue
					}
					name := o[strings.Index(o, "[")+1 : len(o)-1]
					if v, ok := va.idx(fn)[name]; ok {
						var phi *ssa.Phi
						switch x := v.(type) {
						case *ssa.Phi:
							phi = x
						case *ssa.BinOp:
							phi, _ = x.X.(*ssa.Phi)
						}
						if phi != nil && phi.Block() == l.Header {
							elem = o
						}
					}
				}
			}
			if elem == "" {
				continue
			}
			nSeq++
			for _, e := range va.events[fn] {
				if !l.Body[e.call.Block()] {
					continue
				}
				of := false
				for _, o := range e.operands {
					if o == elem || strings.HasPrefix(o, elem+".") {
						of = true
					}
				}
				if !of {
					continue
				}
				nSeqEv++
				blk := e.call.Block()
				unpolled := false
				if !polls[blk] && !polls[l.Header] {
					for _, s := range l.Header.Succs {
						if !l.Body[s] {
							continue
						}
						if s == blk {
							unpolled = true
							continue
						}
						if polls[s] {
							continue
						}
						reach := reachable(s, func(b *ssa.BasicBlock) bool { return polls[b] || !l.Body[b] || b == l.Header })
						if reach[blk] {
							unpolled = true
						}
					}
				}
				r.Check(!unpolled, "C02.R8", fmt.Sprintf("%s|%s %s evaluated after a poll", fname, e.role, normIdx(strings.Join(e.operands, "|"))), p.Pos(e.call.Pos()),
					"every path of the iteration to this evaluation passes a context poll or the polling statement dispatcher",
					"a statement of a block is evaluated in an iteration that never looked at the context: after a cancellation the following statements of the block still run")
			}
		}
	}
	r.Floor("C02.R2", nLoops, 10)
	r.Floor("C02.R8", nSeq, 1)
	r.Note("C02.R8 evaluations inside statement sequences", nSeqEv)

	// R3: blocking operations
	nBlock := 0
	for _, fn := range m.fns {
		base := m.baseOf(fn)
		fname := funcName(fn)
		cnt := 0
		for _, b := range fn.Blocks {
			for _, in := range b.Instrs {
				site := p.Pos(instrPos(in))
				what := ""
				var selCall *ssa.Call
				switch x := in.(type) {
				case *ssa.Select:
					if x.Blocking {
						what = "blocking native select"
					}
				case *ssa.Send:
					what = "native channel send"
				case *ssa.UnOp:
					if x.Op == token.ARROW {
						what = "native channel receive"
					}
				case *ssa.Call:
					if o := calleeObj(x); o != nil && o.Pkg() != nil && o.Pkg().Path() == "reflect" {
						switch o.Name() {
						case "Select":
							if o.Type().(*types.Signature).Recv() == nil {
								selCall = x
							}
						case "Recv", "Send":
							what = "reflect.Value." + o.Name()
						}
					}
				}
				if what == "" && selCall == nil {
					continue
				}
				nBlock++
				cnt++
				inst := fmt.Sprintf("%s|blocking op #%d", fname, cnt)
				if selCall == nil {
					r.Fail("C02.R3", inst, site, what+" does not wait on the run's context: a script blocked here ignores cancellation")
					continue
				}
				if base == nil {
					r.Fail("C02.R3", inst, site, "reflect.Select outside a function working on a run record")
					continue
				}
				okCase, why := m.selectCase0IsCtx(selCall, base)
				if !okCase {
					r.Fail("C02.R3", inst, site, why)
					continue
				}
				// chosen == 0 → ErrInterrupt, no evaluation
				okExit, why2 := false, "the result of reflect.Select is not tested for the context case"
				for _, ref := range *selCall.Referrers() {
					ex, ok := ref.(*ssa.Extract)
					if !ok || ex.Index != 0 {
						continue
					}
					for _, v := range chosenUses(ex) {
						for _, r3 := range *v.Referrers() {
							bo, ok := r3.(*ssa.BinOp)
							if !ok || bo.Op != token.EQL || !isZeroConst(bo.Y) {
								continue
							}
							for _, r4 := range *bo.Referrers() {
								if iff, ok := r4.(*ssa.If); ok {
									okExit, why2 = m.interruptExit(fn, iff.Block().Succs[0], ea, va)
								}
							}
						}
					}
				}
				r.Check(okExit, "C02.R3", inst, site, "reflect.Select with case 0 = ctx.Done(); chosen == 0 stores ErrInterrupt and leaves", why2)
			}
		}
	}
	r.Floor("C02.R3", nBlock, 4)

	// R4
	c02Threading(p, r, m)
	c02ErrorBox(p, r, m)

	// R7: the script does not carry on: no evaluation of script code starts at a point where the error cell can hold ErrInterrupt
	{
		bInt := ea.sentinel("ErrInterrupt")
		evs := ea.va
		if evs == nil {
			evs = buildEvalAnalysis(m)
		}
		nEv := 0
		for _, fn := range m.funcsOnRecord() {
			cnt := map[string]int{}
			for _, e := range evs.events[fn] {
				opnd := strings.Join(e.operands, "|")
				key := fmt.Sprintf("%s|%s %s", funcName(fn), e.role, normIdx(opnd))
				cnt[key]++
				inst := key
				if cnt[key] > 1 {
					inst = fmt.Sprintf("%s #%d", key, cnt[key])
				}
				st := ea.before[fn][e.call]
				if st == nil || bInt == 0 {
					continue
				}
				nEv++
				if st.cell&bInt != 0 && strings.HasSuffix(opnd, ".(IdentExpr)") && e.role == "let" {
					continue // write-back to a plain identifier evaluates nothing
				}
				r.Check(st.cell&bInt == 0, "C02.R7", inst, p.Pos(e.call.Pos()), "the error cell cannot hold ErrInterrupt when this evaluation starts",
					"this evaluation can start while ErrInterrupt is pending: the script goes on executing after the cancellation (and the evaluation can replace the interruption by its own outcome)")
			}
		}
		r.Floor("C02.R7", nEv, 95)
	}
	// R5
	for _, fn := range m.funcsOnRecord() {
		if _, isParam := m.baseOf(fn).(*ssa.Parameter); isParam && m.storesNilToDefers(fn) {
			checkDefersPrecedence(p, r, m, ea, fn, "C02.R5")
		}
	}
	for _, fn := range m.funcsOnRecord() {
		base := m.baseOf(fn)
		fname := funcName(fn)
		fl := &errFlow{a: ea, fn: fn, base: base, ent: ea.entry[fn]}
		isRecover := false
		for _, b := range fn.Blocks {
			for _, in := range b.Instrs {
				if c, ok := in.(*ssa.Call); ok {
					if bi, ok := c.Call.Value.(*ssa.Builtin); ok && bi.Name() == "recover" {
						isRecover = true
					}
				}
			}
		}
		cnt := 0
		for _, b := range fn.Blocks {
			for _, in := range b.Instrs {
				switch x := in.(type) {
				case *ssa.Store:
					if m.cellAddr(x.Addr, base) != "err" {
						continue
					}
					pre := ea.before[fn][x]
					if pre == nil || pre.cell&bInt == 0 {
						continue
					}
					val := fl.abs(x.Val, pre, 0)
					if val&bInt != 0 && val&^bInt == 0 {
						continue
					}
					cnt++
					inst := fmt.Sprintf("%s|overwrites interrupt #%d", fname, cnt)
					r.Check(isRecover || m.storesNilToDefers(fn), "C02.R5", inst, p.Pos(instrPos(x)), "only the recover handler / deferred-call runner may replace a pending interrupt", "a pending ErrInterrupt can be overwritten with "+ea.bitName(val)+": the script swallows the cancellation")
				case *ssa.Call:
					if callee := staticCallee(x); callee != nil && callee.Pkg == m.sp && len(x.Call.Args) == 2 && isErrorType(x.Call.Args[1].Type()) && callee.Signature.Results().Len() == 1 && isErrorType(callee.Signature.Results().At(0).Type()) {
						if st := ea.before[fn][x]; st != nil {
							v := fl.abs(x.Call.Args[1], st, 0)
							r.Check(v&bInt == 0, "C02.R5", fname+"|wraps "+callee.Name(), p.Pos(x.Pos()), "the wrapped error cannot be ErrInterrupt", "ErrInterrupt can be wrapped into an ordinary error: try and ?? of the caller would treat the cancellation as a script error and swallow it")
						}
					}
				}
			}
		}
	}
}

// chosenUses: the extract and the values it is copied to (named results spilled to memory).
func chosenUses(ex *ssa.Extract) []ssa.Value {
	out := []ssa.Value{ex}
	for _, ref := range *ex.Referrers() {
		if st, ok := ref.(*ssa.Store); ok {
			if al, ok := st.Addr.(*ssa.Alloc); ok {
				for _, r2 := range *al.Referrers() {
					if u, ok := r2.(*ssa.UnOp); ok {
						out = append(out, u)
					}
				}
			}
		}
	}
	return out
}

// selectCase0IsCtx: the case slice passed to reflect.Select is a literal whose element 0 is {Dir: SelectRecv, Chan: ValueOf(ctx.Done())}.
func (m *vmModel) selectCase0IsCtx(c *ssa.Call, base ssa.Value) (bool, string) {
	if len(c.Call.Args) != 1 {
		return false, "unexpected reflect.Select call"
	}
	sl, ok := c.Call.Args[0].(*ssa.Slice)
	if !ok {
		if u, ok := c.Call.Args[0].(*ssa.UnOp); ok {
			if al, ok := u.X.(*ssa.Alloc); ok {
				for _, ref := range *al.Referrers() {
					if st, ok := ref.(*ssa.Store); ok && st.Addr == ssa.Value(al) {
						sl, _ = st.Val.(*ssa.Slice)
					}
				}
			}
		}
	}
	if sl == nil {
		return false, "the case list of reflect.Select is not a literal built here"
	}
	arr, ok := sl.X.(*ssa.Alloc)
	if !ok {
		return false, "the case list of reflect.Select is not a literal built here"
	}
	dirOK, chanOK := false, false
	for _, ref := range *arr.Referrers() {
		ia, ok := ref.(*ssa.IndexAddr)
		if !ok {
			continue
		}
		ic, ok := ia.Index.(*ssa.Const)
		if !ok || ic.Int64() != 0 {
			continue
		}
		for _, r2 := range *ia.Referrers() {
			fa, ok := r2.(*ssa.FieldAddr)
			if !ok {
				continue
			}
			fname := fieldOfAddr(fa).Name()
			for _, r3 := range *fa.Referrers() {
				st, ok := r3.(*ssa.Store)
				if !ok || st.Addr != ssa.Value(fa) {
					continue
				}
				switch fname {
				case "Dir":
					if cst, ok := st.Val.(*ssa.Const); ok && cst.Int64() == 2 { // reflect.SelectRecv
						dirOK = true
					}
				case "Chan":
					if vc, ok := st.Val.(*ssa.Call); ok {
						if o := calleeObj(vc); o != nil && isFuncNamed(o, "reflect", "", "ValueOf") && m.isCtxDone(stripConv(vc.Call.Args[0]), base) {
							chanOK = true
						}
					}
				}
			}
		}
	}
	if !chanOK {
		return false, "case 0 of reflect.Select does not wait on ctx.Done() of the current run: a script blocked here ignores cancellation"
	}
	if !dirOK {
		return false, "case 0 of reflect.Select is not a receive"
	}
	return true, ""
}

func isContextType(t types.Type) bool { return isNamed(t, "context", "Context") }

// c02Threading checks R4.
func c02Threading(p *Program, r *Report, m *vmModel) {
	nUses := 0
	// origin of a context value
	var origin func(fn *ssa.Function, v ssa.Value, depth int) string
	origin = func(fn *ssa.Function, v ssa.Value, depth int) string {
		if depth > 8 {
			return "unknown"
		}
		switch x := v.(type) {
		case *ssa.Parameter:
			return "own parameter"
		case *ssa.FreeVar:
			// captured variable: origin of what the enclosing function bound
			b := bindingOf(fn, x)
			if b == nil || fn.Parent() == nil {
				return "captured value"
			}
			if al, ok := b.(*ssa.Alloc); ok {
				res := ""
				for _, ref := range *al.Referrers() {
					if st, ok := ref.(*ssa.Store); ok && st.Addr == ssa.Value(al) {
						o := origin(fn.Parent(), st.Val, depth+1)
						if res == "" || o == res {
							res = o
						} else {
							res = "mixed"
						}
					}
				}
				return "captured: " + res
			}
			return "captured: " + origin(fn.Parent(), b, depth+1)
		case *ssa.UnOp:
			if fa, ok := x.X.(*ssa.FieldAddr); ok && m.isRI(fa.X.Type()) && m.cell[fa.Field] == "ctx" {
				switch fa.X.(type) {
				case *ssa.Parameter:
					return "ctx cell of the current record"
				case *ssa.Alloc:
					return "ctx cell of the record allocated here"
				default:
					return "ctx cell of a captured record"
				}
			}
			if fv, ok := x.X.(*ssa.FreeVar); ok {
				return origin(fn, fv, depth+1)
			}
			if al, ok := x.X.(*ssa.Alloc); ok {
				res := ""
				for _, ref := range *al.Referrers() {
					if st, ok := ref.(*ssa.Store); ok && st.Addr == ssa.Value(al) {
						res = origin(fn, st.Val, depth+1)
					}
				}
				return res
			}
		case *ssa.TypeAssert:
			// in[0].Interface().(context.Context)
			if c, ok := x.X.(*ssa.Call); ok {
				if o := calleeObj(c); o != nil && isFuncNamed(o, "reflect", "Value", "Interface") {
					if u, ok := c.Call.Args[0].(*ssa.UnOp); ok {
						if ia, ok := u.X.(*ssa.IndexAddr); ok {
							if _, isParam := ia.X.(*ssa.Parameter); isParam {
								if ic, ok := ia.Index.(*ssa.Const); ok && ic.Int64() == 0 {
									return "incoming argument 0"
								}
							}
						}
					}
				}
			}
		case *ssa.Call:
			if o := calleeObj(x); o != nil && o.Pkg() != nil && o.Pkg().Path() == "context" {
				return "context." + o.Name() + "()"
			}
		case *ssa.MakeInterface:
			return origin(fn, x.X, depth+1)
		case *ssa.ChangeInterface:
			return origin(fn, x.X, depth+1)
		}
		return "unknown"
	}
	good := func(o string) bool {
		o = strings.TrimPrefix(o, "captured: ")
		return o == "own parameter" || o == "ctx cell of the current record" || o == "incoming argument 0" || o == "ctx cell of the record allocated here"
	}
	for _, fn := range m.fns {
		fname := funcName(fn)
		cnt := map[string]int{}
		for _, b := range fn.Blocks {
			for _, in := range b.Instrs {
				site := p.Pos(instrPos(in))
				switch x := in.(type) {
				case *ssa.Store:
					// (a) record literal: ctx field
					fa, ok := x.Addr.(*ssa.FieldAddr)
					if !ok || !m.isRI(fa.X.Type()) || m.cell[fa.Field] != "ctx" {
						continue
					}
					nUses++
					o := origin(fn, x.Val, 0)
					r.Check(o == "own parameter", "C02.R4", fname+"|record ctx", site, "the record's context is the function's own context parameter", "a run record takes its context from "+o+" instead of the context its caller supplied")
				case *ssa.Call:
					// (c) context.Background / TODO
					if o := calleeObj(x); o != nil && o.Pkg() != nil && o.Pkg().Path() == "context" && (o.Name() == "Background" || o.Name() == "TODO") {
						nUses++
						wrapper := fn.Parent() == nil && fn.Object() != nil && fn.Object().Exported() && !hasCtxParam(fn)
						r.Check(wrapper, "C02.R4", fname+"|context."+o.Name(), site, "convenience wrapper without a context parameter", "script code started here runs under context."+o.Name()+"(): it cannot be cancelled by the caller's context")
						continue
					}
					// (b) contexts handed on
					for ai, a := range x.Call.Args {
						if !isContextType(a.Type()) {
							// reflect.ValueOf(ctx)
							if mi, ok := a.(*ssa.MakeInterface); ok && isContextType(mi.X.Type()) {
								if o := calleeObj(x); o != nil && isFuncNamed(o, "reflect", "", "ValueOf") {
									a = mi.X
								} else {
									continue
								}
							} else {
								continue
							}
						}
						if o := calleeObj(x); o != nil && o.Pkg() != nil && o.Pkg().Path() == "context" {
							continue
						}
						// only calls into script functions / exported run entry points / reflect boxing matter
						callee := staticCallee(x)
						isVMProto := false
						if sig, ok := x.Call.Value.Type().Underlying().(*types.Signature); ok && sig.Results().Len() == 2 && isNamed(sig.Results().At(0).Type(), "reflect", "Value") && isNamed(sig.Results().At(1).Type(), "reflect", "Value") {
							isVMProto = true
						}
						isBox := false
						if o := calleeObj(x); o != nil && isFuncNamed(o, "reflect", "", "ValueOf") {
							isBox = true
						}
						isEntry := callee != nil && callee.Pkg == m.sp && hasCtxParam(callee)
						if !isVMProto && !isBox && !isEntry {
							continue
						}
						nUses++
						key := fname + "|passes context"
						cnt[key]++
						inst := key
						if cnt[key] > 1 {
							inst = fmt.Sprintf("%s #%d", key, cnt[key])
						}
						o := origin(fn, a, 0)
						okO := good(o)
						if !okO && strings.HasPrefix(o, "context.") && fn.Parent() == nil && fn.Object() != nil && fn.Object().Exported() && !hasCtxParam(fn) {
							okO = true // the convenience wrappers, judged by (c)
						}
						_ = ai
						r.Check(okO, "C02.R4", inst, site, "context comes from "+o, "the context handed to script code comes from "+o+": the callee does not see the cancellation of the run that calls it")
					}
				}
			}
		}
	}
	r.Floor("C02.R4", nUses, 15)
}

func hasCtxParam(fn *ssa.Function) bool {
	for _, p := range fn.Params {
		if isContextType(p.Type()) {
			return true
		}
	}
	return false
}

// c02ErrorBox (R6): the error half of a script function's result is a reflect.Value of reflect type error or *Error: the call
// sites accept nothing else (any other type is replaced by an ordinary "VM function error type" error there, which try and ??
// swallow, so an interruption stops being one).
func c02ErrorBox(p *Program, r *Report, m *vmModel) {
	r.Explain("R6 the error half of a script function's result is a reflect.Value of reflect type error or *Error (evaluated symbolically, package-level values through the initialiser): the call sites accept nothing else.")
	inits := map[*ssa.Global]ssa.Value{}
	if ini := m.sp.Func("init"); ini != nil {
		for _, b := range ini.Blocks {
			for _, in := range b.Instrs {
				if st, ok := in.(*ssa.Store); ok {
					if g, ok := st.Addr.(*ssa.Global); ok {
						inits[g] = st.Val
					}
				}
			}
		}
	}
	var valT, typT func(v ssa.Value, d int) types.Type
	dynOf := func(a ssa.Value, d int) types.Type { // the dynamic type of interface operand a
		for {
			ci, ok := a.(*ssa.ChangeInterface)
			if !ok {
				break
			}
			a = ci.X
		}
		if mi, ok := a.(*ssa.MakeInterface); ok {
			return mi.X.Type()
		}
		if c, ok := a.(*ssa.Call); ok {
			if callee := staticCallee(c); callee != nil && len(callee.Blocks) > 0 && d < 4 {
				var res types.Type
				for _, b := range callee.Blocks {
					ret, ok := b.Instrs[len(b.Instrs)-1].(*ssa.Return)
					if !ok || len(ret.Results) != 1 {
						continue
					}
					rv := ret.Results[0]
					if k, ok := rv.(*ssa.Const); ok && k.IsNil() {
						continue
					}
					mi, ok := rv.(*ssa.MakeInterface)
					if !ok {
						return nil
					}
					if res != nil && !types.Identical(res, mi.X.Type()) {
						return nil
					}
					res = mi.X.Type()
				}
				return res
			}
		}
		return nil
	}
	valT = func(v ssa.Value, d int) types.Type {
		if d > 8 {
			return nil
		}
		switch x := v.(type) {
		case *ssa.UnOp:
			if g, ok := x.X.(*ssa.Global); ok && x.Op == token.MUL {
				if iv, ok := inits[g]; ok {
					return valT(iv, d+1)
				}
			}
		case *ssa.Phi:
			var res types.Type
			for _, e := range x.Edges {
				t := valT(e, d+1)
				if t == nil || (res != nil && !types.Identical(res, t)) {
					return nil
				}
				res = t
			}
			return res
		case *ssa.Call:
			switch reflectMethod(x) {
			case "Elem":
				if pt, ok := valT(x.Call.Args[0], d+1).(*types.Pointer); ok {
					return pt.Elem()
				}
				return nil
			case "Index":
				if st, ok := valT(x.Call.Args[0], d+1).(*types.Slice); ok {
					return st.Elem()
				}
				return nil
			}
			o := calleeObj(x)
			if isFuncNamed(o, "reflect", "", "New") {
				if t := typT(x.Call.Args[0], d+1); t != nil {
					return types.NewPointer(t)
				}
			}
			if isFuncNamed(o, "reflect", "", "ValueOf") {
				return dynOf(x.Call.Args[0], d)
			}
		}
		return nil
	}
	typT = func(v ssa.Value, d int) types.Type {
		if d > 8 {
			return nil
		}
		switch x := v.(type) {
		case *ssa.UnOp:
			if g, ok := x.X.(*ssa.Global); ok && x.Op == token.MUL {
				if iv, ok := inits[g]; ok {
					return typT(iv, d+1)
				}
			}
		case *ssa.Call:
			if reflectMethod(x) == "Type" {
				return valT(x.Call.Args[0], d+1)
			}
			o := calleeObj(x)
			if isFuncNamed(o, "reflect", "", "TypeOf") {
				return dynOf(x.Call.Args[0], d)
			}
			if x.Call.IsInvoke() && o != nil && o.Name() == "Elem" {
				switch t := typT(x.Call.Value, d+1).(type) {
				case *types.Pointer:
					return t.Elem()
				case *types.Slice:
					return t.Elem()
				}
			}
		}
		return nil
	}
	isBody := func(fn *ssa.Function) bool {
		res := fn.Signature.Results()
		return res.Len() == 2 && res.At(0).Type().String() == "reflect.Value" && res.At(1).Type().String() == "reflect.Value"
	}
	errT := types.Universe.Lookup("error").Type()
	n := 0
	for _, fn := range SrcFuncs(m.sp) {
		if !isBody(fn) {
			continue
		}
		k := 0
		for _, b := range fn.Blocks {
			ret, ok := b.Instrs[len(b.Instrs)-1].(*ssa.Return)
			if !ok || len(ret.Results) != 2 {
				continue
			}
			ev := ret.Results[1]
			if ex, ok := ev.(*ssa.Extract); ok && ex.Index == 1 {
				if c, ok := ex.Tuple.(*ssa.Call); ok {
					if callee := calleeValueFunc(c); callee != nil && isBody(callee) {
						continue // handed on from the body function proper
					}
				}
			}
			k++
			n++
			t := valT(ev, 0)
			ok2 := t != nil && (types.Identical(t, errT) || isNamedPtrTo(t, modPath+"/vm", "Error"))
			got := "unknown"
			if t != nil {
				got = t.String()
			}
			// a box made here (reflect.New(T).Elem()) is empty until something is Set into it: returned empty it says "no error"
			if ec, ok := ev.(*ssa.Call); ok && reflectMethod(ec) == "Elem" {
				if nc, ok := ec.Call.Args[0].(*ssa.Call); ok && isFuncNamed(calleeObj(nc), "reflect", "", "New") {
					filled := false
					for _, ref := range *ec.Referrers() {
						if sc, ok := ref.(*ssa.Call); ok && reflectMethod(sc) == "Set" && sc.Call.Args[0] == ssa.Value(ec) && instrDominates(sc, ret) {
							filled = true
						}
					}
					r.Check(filled, "C02.R6", fmt.Sprintf("%s|error result #%d carries the error", funcName(fn), k), p.Pos(instrPos(ret)), "the box made here is filled before it is returned",
						"the error box returned on a failing path is made here and never filled: it is nil, so the failure (the interruption) is reported to the caller as success and the run continues")
				}
			}
			r.Check(ok2, "C02.R6", fmt.Sprintf("%s|error result #%d is an error or *Error box", funcName(fn), k), p.Pos(instrPos(ret)), "reflect type "+got,
				"the error half of the script function's result has reflect type "+got+", which the call sites reject: the failure (an interruption included) comes back as an ordinary 'VM function error type' error that try and ?? swallow")
		}
	}
	r.Floor("C02.R6", n, 3)
	c02Unboxing(p, r, m, isBody)
}

// c02Unboxing (R6): where package vm calls a script function's body directly and looks at the error box itself, the non-nil
// side puts the unboxed error into the error cell on every path, and asserts the concrete type *Error only where the box's
// type was tested to be that (an interruption is a plain error: asserted as *Error it panics into a different error).
func c02Unboxing(p *Program, r *Report, m *vmModel, isBody func(*ssa.Function) bool) {
	n := 0
	for _, fn := range m.funcsOnRecord() {
		base := m.baseOf(fn)
		// error boxes: result 1 of calls through a value whose type is a body signature
		boxes := map[ssa.Value]bool{}
		for _, b := range fn.Blocks {
			for _, in := range b.Instrs {
				ex, ok := in.(*ssa.Extract)
				if !ok || ex.Index != 1 {
					continue
				}
				c, ok := ex.Tuple.(*ssa.Call)
				if !ok {
					continue
				}
				sig, ok := c.Call.Value.Type().Underlying().(*types.Signature)
				if !ok || c.Call.IsInvoke() || sig.Results().Len() != 2 || sig.Results().At(0).Type().String() != "reflect.Value" || sig.Results().At(1).Type().String() != "reflect.Value" {
					continue
				}
				boxes[ex] = true
			}
		}
		if len(boxes) == 0 {
			continue
		}
		isBox := func(v ssa.Value) bool {
			if boxes[v] {
				return true
			}
			if ph, ok := v.(*ssa.Phi); ok {
				for _, e := range ph.Edges {
					if boxes[e] {
						return true
					}
				}
			}
			if sv := spilledValue(v); sv != nil && boxes[sv] {
				return true
			}
			return false
		}
		for _, b := range fn.Blocks {
			iff, ok := b.Instrs[len(b.Instrs)-1].(*ssa.If)
			if !ok {
				continue
			}
			cond, neg := iff.Cond, false
			if u, ok := cond.(*ssa.UnOp); ok && u.Op == token.NOT {
				cond, neg = u.X, true
			}
			c, ok := cond.(*ssa.Call)
			if !ok || reflectMethod(c) != "IsNil" || !isBox(c.Call.Args[0]) {
				continue
			}
			failSucc := b.Succs[1]
			if neg {
				failSucc = b.Succs[0]
			}
			n++
			// every path from the failing side to a return stores into the error cell
			blocked := func(x *ssa.BasicBlock) bool {
				for _, in := range x.Instrs {
					if st, ok := in.(*ssa.Store); ok && m.cellAddr(st.Addr, base) == "err" && !isNilConst(st.Val) {
						return true
					}
				}
				return false
			}
			bad := ""
			for x := range reachable(failSucc, blocked) {
				if ret, ok := x.Instrs[len(x.Instrs)-1].(*ssa.Return); ok {
					bad = "the return at " + p.Pos(instrPos(ret)) + " is reached from the non-nil side without the error having been put into the error cell"
				}
			}
			r.Check(bad == "", "C02.R6", fmt.Sprintf("%s|error box #%d unboxed into the error cell on every path", funcName(fn), n), p.Pos(c.Pos()), "every path from the non-nil side stores the error",
				bad+": the callee's failure (an interruption included) is dropped and the caller carries on")
		}
		// *Error asserted only under the type test
		k := 0
		for _, b := range fn.Blocks {
			for _, in := range b.Instrs {
				ta, ok := in.(*ssa.TypeAssert)
				if !ok || ta.CommaOk || !isNamedPtrTo(ta.AssertedType, modPath+"/vm", "Error") {
					continue
				}
				ic, ok := ta.X.(*ssa.Call)
				if !ok || reflectMethod(ic) != "Interface" || !isBox(ic.Call.Args[0]) {
					continue
				}
				k++
				n++
				guarded := false
				for d := b; d != nil && d.Idom() != nil; d = d.Idom() {
					id := d.Idom()
					if iff, ok := id.Instrs[len(id.Instrs)-1].(*ssa.If); ok {
						if bo, ok := iff.Cond.(*ssa.BinOp); ok {
							if tc, ok := bo.X.(*ssa.Call); ok && reflectMethod(tc) == "Type" && isBox(tc.Call.Args[0]) {
								if (bo.Op == token.EQL && edgeOnly(id, 0, d)) || (bo.Op == token.NEQ && edgeOnly(id, 1, d)) {
									guarded = true
								}
							}
						}
					}
				}
				r.Check(guarded, "C02.R6", fmt.Sprintf("%s|*Error asserted #%d only where the box holds one", funcName(fn), k), p.Pos(ta.Pos()), "on the true side of the test of the box's type",
					"the content of the error box is asserted to be *Error where its type was not tested to be that: for an interruption (a plain error) the assertion panics and the run reports a different, catchable error")
			}
		}
	}
	if n == 0 {
		r.Undecided("C02.R6", "direct call|error unboxing", "vm", "no direct call of a script function body with an error box test found")
	}
	// what comes out of an error box as a plain error (the interruption is the only such thing a script function returns) is
	// passed on as it is: handed to a function that makes a new error from it, it loses its identity
	k := 0
	for _, fn := range m.fns {
		for _, b := range fn.Blocks {
			for _, in := range b.Instrs {
				ta, ok := in.(*ssa.TypeAssert)
				if !ok || !isErrorType(ta.AssertedType) {
					continue
				}
				ic, ok := ta.X.(*ssa.Call)
				if !ok || reflectMethod(ic) != "Interface" {
					continue
				}
				k++
				var val ssa.Value = ta
				if ta.CommaOk {
					continue
				}
				bad := ""
				seen := map[ssa.Value]bool{}
				var follow func(v ssa.Value)
				follow = func(v ssa.Value) {
					if seen[v] {
						return
					}
					seen[v] = true
					for _, ref := range *v.Referrers() {
						switch x := ref.(type) {
						case *ssa.Phi:
							follow(x)
						case *ssa.Call:
							callee := staticCallee(x)
							if callee != nil && callee.Signature.Results().Len() == 1 && isErrorType(callee.Signature.Results().At(0).Type()) {
								bad = "it is handed to " + callee.Name() + " at " + p.Pos(x.Pos())
							}
							if o := calleeObj(x); o != nil && o.Pkg() != nil && (o.Pkg().Path() == "fmt" && o.Name() == "Errorf" || o.Pkg().Path() == "errors") {
								bad = "it is handed to " + o.FullName() + " at " + p.Pos(x.Pos())
							}
						case *ssa.MakeInterface:
							follow(x)
						}
					}
				}
				follow(val)
				r.Check(bad == "", "C02.R6", fmt.Sprintf("%s|plain error out of the box #%d passed on as it is", funcName(fn), k), p.Pos(ta.Pos()), "returned or stored unchanged",
					"the plain error taken out of a script function's error box (an interruption) is not passed on as it is: "+bad+", which makes a new error of it; the caller's try and ?? no longer recognise the interruption and swallow it")
			}
		}
	}
}

func isNamedPtrTo(t types.Type, pkg, name string) bool {
	pt, ok := t.(*types.Pointer)
	return ok && isNamed(pt.Elem(), pkg, name)
}

// calleeValueFunc: the function called, also when it is a closure held in a local (free variable or MakeClosure).
func calleeValueFunc(c *ssa.Call) *ssa.Function {
	if f := staticCallee(c); f != nil {
		return f
	}
	v := c.Call.Value
	if u, ok := v.(*ssa.UnOp); ok {
		if fv, ok := u.X.(*ssa.FreeVar); ok {
			if b := bindingOf(fv.Parent(), fv); b != nil {
				if al, ok := b.(*ssa.Alloc); ok {
					v = allocSingleValue(al)
				}
			}
		}
	}
	if fv, ok := v.(*ssa.FreeVar); ok {
		v = bindingOf(fv.Parent(), fv)
	}
	if mc, ok := v.(*ssa.MakeClosure); ok {
		f, _ := mc.Fn.(*ssa.Function)
		return f
	}
	return nil
}
