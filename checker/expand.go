package main

// Second opinion on the helper-expanded program.
//
// The rules read the interpreter the way it is written today: an operand test, a kind guard, a bound test stand in the function
// that uses them. A maintainer who moves such an expression into a small function of its own (`func isIntegerPair(a, b
// reflect.Kind) bool { return ... }`) changes nothing about the behaviour, and most rules would no longer see the test. Rather
// than teach every matcher to look through calls, a rule that fails on the program as written is decided a second time on a
// program in which every call of an *expression helper* — a function of the same package whose whole body is `return <expr>` —
// is replaced by that expression with the (side-effect free) arguments substituted for the parameters. The two programs compute
// the same thing by construction (the substitution is only made where it is sound: arguments are plain names, selector chains
// or literals of exactly the parameter's type, free names of the helper resolve to the same objects at the call, no function
// literal, no recover). A rule counts as violated only when it fails on both forms.
//
// The expansion is done on the source text, handed to go/packages as an overlay; line numbers are kept (the replacement is put
// on the line of the call).

import (
	"bytes"
	"go/ast"
	"go/token"
	"go/types"
	"os"
	"sort"
	"strings"
)

type exprHelper struct {
	fn     *types.Func
	decl   *ast.FuncDecl
	ret    ast.Expr
	params []*types.Var // receiver first, when there is one
	file   *ast.File
	src    []byte
}

type srcEdit struct {
	start, end int
	text       string
}

// expandHelpers returns an overlay (absolute file name -> new content) and the number of calls expanded.
// only: when not nil, the functions (by declaration) that failing obligations point at; then a helper is expanded only when
// it is one of them or when every use of it lies inside them (a freshly extracted helper has one user; a predicate the whole
// package shares - which rules may anchor on - is left alone).
func expandHelpers(p *Program, only func(fd *ast.FuncDecl) bool) (map[string][]byte, int) {
	overlay := map[string][]byte{}
	total := 0
	srcOf := map[string][]byte{}
	read := func(name string) []byte {
		if b, ok := srcOf[name]; ok {
			return b
		}
		b, _ := os.ReadFile(name)
		srcOf[name] = b
		return b
	}
	for _, pk := range p.All {
		info := pk.TypesInfo
		if info == nil {
			continue
		}
		off := func(pos token.Pos) int { return p.Fset.PositionFor(pos, false).Offset }
		fileName := func(pos token.Pos) string { return p.Fset.PositionFor(pos, false).Filename }
		helpers := map[*types.Func]*exprHelper{}
		for _, f := range pk.Syntax {
			for _, d := range f.Decls {
				fd, ok := d.(*ast.FuncDecl)
				if !ok || fd.Body == nil || len(fd.Body.List) != 1 || fd.Type.TypeParams != nil {
					continue
				}
				rs, ok := fd.Body.List[0].(*ast.ReturnStmt)
				if !ok || len(rs.Results) != 1 || fd.Type.Results == nil || len(fd.Type.Results.List) != 1 || len(fd.Type.Results.List[0].Names) != 0 {
					continue
				}
				obj, _ := info.Defs[fd.Name].(*types.Func)
				if obj == nil {
					continue
				}
				sig := obj.Type().(*types.Signature)
				if sig.Variadic() {
					continue
				}
				h := &exprHelper{fn: obj, decl: fd, ret: rs.Results[0], file: f, src: read(fileName(fd.Pos()))}
				okParams := true
				if sig.Recv() != nil {
					if sig.Recv().Name() == "" || sig.Recv().Name() == "_" {
						okParams = false
					}
					h.params = append(h.params, sig.Recv())
				}
				for i := 0; i < sig.Params().Len(); i++ {
					v := sig.Params().At(i)
					if v.Name() == "" || v.Name() == "_" {
						okParams = false
					}
					h.params = append(h.params, v)
				}
				if !okParams || len(h.src) == 0 {
					continue
				}
				if tv, ok := info.Types[h.ret]; !ok || tv.Type == nil || !types.Identical(tv.Type, sig.Results().At(0).Type()) {
					continue
				}
				bad := false
				ast.Inspect(h.ret, func(n ast.Node) bool {
					switch x := n.(type) {
					case *ast.FuncLit:
						bad = true
					case *ast.Ident:
						if b, ok := info.Uses[x].(*types.Builtin); ok && b.Name() == "recover" {
							bad = true
						}
						if info.Uses[x] == types.Object(obj) {
							bad = true // recursive
						}
					}
					return !bad
				})
				if bad || bytes.Contains(h.src[off(h.ret.Pos()):off(h.ret.End())], []byte("//")) {
					continue
				}
				helpers[obj] = h
			}
		}
		if len(helpers) == 0 {
			continue
		}
		refs := map[*types.Func]int{}     // uses of the helper's name anywhere in the package
		expandedN := map[*types.Func]int{} // calls replaced
		outside := map[*types.Func]bool{}  // used in a function that no failing obligation points at
		for _, f := range pk.Syntax {
			for _, d := range f.Decls {
				fd, _ := d.(*ast.FuncDecl)
				ast.Inspect(d, func(n ast.Node) bool {
					if id, ok := n.(*ast.Ident); ok {
						if fn, ok := info.Uses[id].(*types.Func); ok && helpers[fn] != nil {
							refs[fn]++
							if only != nil && (fd == nil || !only(fd)) {
								outside[fn] = true
							}
						}
					}
					return true
				})
			}
		}
		if only != nil {
			for fn, h := range helpers {
				if outside[fn] && !only(h.decl) {
					delete(helpers, fn)
				}
			}
		}
		fileEdits := map[string][]srcEdit{}
		pure := func(e ast.Expr) bool {
			for {
				switch x := e.(type) {
				case *ast.Ident:
					return true
				case *ast.BasicLit:
					return true
				case *ast.SelectorExpr:
					e = x.X
				case *ast.ParenExpr:
					e = x.X
				default:
					return false
				}
			}
		}
		for _, f := range pk.Syntax {
			name := fileName(f.Pos())
			src := read(name)
			if len(src) == 0 {
				continue
			}
			imports := map[string]bool{} // package objects visible under their own name
			for _, im := range f.Imports {
				if pn, ok := info.Implicits[im].(*types.PkgName); ok {
					imports[pn.Imported().Path()+" "+pn.Name()] = true
				} else if im.Name != nil {
					if pn, ok := info.Defs[im.Name].(*types.PkgName); ok {
						imports[pn.Imported().Path()+" "+pn.Name()] = true
					}
				}
			}
			var edits []srcEdit
			var visit func(n ast.Node) bool
			visit = func(n ast.Node) bool {
				call, ok := n.(*ast.CallExpr)
				if !ok || call.Ellipsis != token.NoPos {
					return true
				}
				var callee *types.Func
				var args []ast.Expr
				switch fun := call.Fun.(type) {
				case *ast.Ident:
					callee, _ = info.Uses[fun].(*types.Func)
				case *ast.SelectorExpr:
					if sel, ok := info.Selections[fun]; ok && sel.Kind() == types.MethodVal && !sel.Indirect() {
						callee, _ = sel.Obj().(*types.Func)
						args = append(args, fun.X)
					}
				}
				h := helpers[callee]
				if h == nil {
					return true
				}
				args = append(args, call.Args...)
				if len(args) != len(h.params) {
					return true
				}
				// never inside the helper's own declaration
				if call.Pos() >= h.decl.Pos() && call.End() <= h.decl.End() {
					return true
				}
				for i, a := range args {
					tv, ok := info.Types[a]
					if !ok || tv.Type == nil || !pure(a) || !types.Identical(tv.Type, h.params[i].Type()) {
						return true
					}
				}
				// free names of the helper's expression mean the same thing at the call
				scope := pk.Types.Scope().Innermost(call.Pos())
				okNames := true
				isParam := map[types.Object]int{}
				for i, v := range h.params {
					isParam[v] = i
				}
				type sub struct {
					start, end int
					arg        int
				}
				var subs []sub
				base := off(h.ret.Pos())
				selName := map[*ast.Ident]bool{} // the right-hand name of a selector is looked up in its operand, not in a scope
				ast.Inspect(h.ret, func(m ast.Node) bool {
					if x, ok := m.(*ast.SelectorExpr); ok {
						selName[x.Sel] = true
					}
					return true
				})
				ast.Inspect(h.ret, func(m ast.Node) bool {
					switch x := m.(type) {
					case *ast.Ident:
						o := info.Uses[x]
						if o == nil || selName[x] {
							return true
						}
						if i, ok := isParam[o]; ok {
							subs = append(subs, sub{off(x.Pos()) - base, off(x.End()) - base, i})
							return true
						}
						if v, ok := o.(*types.Var); ok && v.IsField() {
							return true
						}
						if _, ok := o.(*types.Func); ok && o.Parent() == nil {
							return true // method
						}
						if pn, ok := o.(*types.PkgName); ok {
							if !imports[pn.Imported().Path()+" "+pn.Name()] {
								okNames = false
							}
						}
						if scope != nil {
							if _, found := scope.LookupParent(x.Name, call.Pos()); found != o {
								if pn, ok := o.(*types.PkgName); ok {
									// package names are file-scoped objects: compare what they name
									if f2, ok := found.(*types.PkgName); !ok || f2.Imported() != pn.Imported() {
										okNames = false
									}
								} else {
									okNames = false
								}
							}
						}
					}
					return true
				})
				if !okNames {
					return true
				}
				text := string(h.src[base:off(h.ret.End())])
				sort.Slice(subs, func(i, j int) bool { return subs[i].start > subs[j].start })
				for _, s := range subs {
					a := args[s.arg]
					at := string(src[off(a.Pos()):off(a.End())])
					text = text[:s.start] + "(" + at + ")" + text[s.end:]
				}
				if strings.Contains(text, "`") {
					return true
				}
				text = strings.ReplaceAll(text, "\n", " ")
				edits = append(edits, srcEdit{off(call.Pos()), off(call.End()), "(" + text + ")"})
				expandedN[callee]++
				return false // arguments are pure: nothing further to expand inside
			}
			ast.Inspect(f, visit)
			// a tag-less switch whose cases are all disjunctions of `x == constant` on one plain name is the tagged switch
			// `switch x { case c1, c2: }` (go/ssa lowers the tag-less form to a merged boolean compared with true, which the
			// rules that follow branch conditions do not read)
			ast.Inspect(f, func(n ast.Node) bool {
				sw, ok := n.(*ast.SwitchStmt)
				if !ok || sw.Tag != nil || sw.Init != nil || len(sw.Body.List) < 2 {
					return true
				}
				var subject types.Object
				seen := map[string]bool{}
				var caseEdits []srcEdit
				good := true
				var split func(e ast.Expr, out *[]ast.Expr) bool
				split = func(e ast.Expr, out *[]ast.Expr) bool {
					switch x := e.(type) {
					case *ast.ParenExpr:
						return split(x.X, out)
					case *ast.BinaryExpr:
						if x.Op == token.LOR {
							return split(x.X, out) && split(x.Y, out)
						}
						if x.Op != token.EQL {
							return false
						}
						id, k := x.X, x.Y
						if tv, ok := info.Types[id]; ok && tv.Value != nil {
							id, k = x.Y, x.X
						}
						ident, ok := id.(*ast.Ident)
						if !ok {
							return false
						}
						o := info.Uses[ident]
						if _, isVar := o.(*types.Var); !isVar || (subject != nil && o != subject) {
							return false
						}
						tv, ok := info.Types[k]
						if !ok || tv.Value == nil || seen[tv.Value.ExactString()] {
							return false
						}
						if !types.Identical(types.Default(tv.Type), o.Type()) && !types.Identical(tv.Type, o.Type()) {
							return false
						}
						seen[tv.Value.ExactString()] = true
						subject = o
						*out = append(*out, k)
						return true
					}
					return false
				}
				for _, cs := range sw.Body.List {
					cc := cs.(*ast.CaseClause)
					if len(cc.List) == 0 {
						continue
					}
					var consts []ast.Expr
					for _, e := range cc.List {
						if !split(e, &consts) {
							good = false
						}
					}
					if !good {
						break
					}
					var parts []string
					for _, k := range consts {
						parts = append(parts, string(src[off(k.Pos()):off(k.End())]))
					}
					caseEdits = append(caseEdits, srcEdit{off(cc.List[0].Pos()), off(cc.List[len(cc.List)-1].End()), strings.Join(parts, ", ")})
				}
				if !good || subject == nil || len(caseEdits) == 0 {
					return true
				}
				edits = append(edits, caseEdits...)
				edits = append(edits, srcEdit{off(sw.Body.Lbrace), off(sw.Body.Lbrace), subject.Name() + " "})
				return true
			})
			if len(edits) > 0 {
				fileEdits[name] = append(fileEdits[name], edits...)
				total += len(edits)
			}
		}
		// an unexported helper all of whose uses were expanded is dead code in the expanded program: its declaration is blanked
		// (line structure kept), so that rules which look at every function of a package do not judge the moved expression
		// outside the context it is used in
		for fn, h := range helpers {
			if fn.Exported() || expandedN[fn] == 0 || expandedN[fn] != refs[fn] {
				continue
			}
			if sig := fn.Type().(*types.Signature); sig.Recv() != nil {
				continue // a method may satisfy an interface
			}
			name := fileName(h.decl.Pos())
			start, end := off(h.decl.Pos()), off(h.decl.End())
			if h.decl.Doc != nil {
				start = off(h.decl.Doc.Pos())
			}
			blank := bytes.Map(func(r rune) rune {
				if r == '\n' {
					return r
				}
				return ' '
			}, h.src[start:end])
			fileEdits[name] = append(fileEdits[name], srcEdit{start, end, string(blank)})
		}
		for name, edits := range fileEdits {
			src := read(name)
			sort.Slice(edits, func(i, j int) bool { return edits[i].start > edits[j].start })
			out := append([]byte(nil), src...)
			for _, e := range edits {
				out = append(out[:e.start], append([]byte(e.text), out[e.end:]...)...)
			}
			overlay[name] = out
		}
	}
	return overlay, total
}
