package main

import (
	"fmt"
	"go/token"
	"go/types"
	"os"
	"sort"
	"strings"

	"golang.org/x/tools/go/ssa"
)

func init() { register("C11", "values and calls cross the Go boundary faithfully", checkC11) }

func checkC11(p *Program, r *Report) {
	r.Explain("C11: what reflect's conversion yields for which value is Go's and is not decided. Decided is that every crossing goes through it with the right target type and that nothing is dropped: " +
		"R1 in the argument builder every value appended for a Go function is result 0 of the checked conversion to In(rt, k) where k is provably the position it lands at (len(args) and the parameter index advance in lockstep), to the variadic element type Elem(In(rt, NumIn-1)) or the variadic slice type for a spread; for a VM function it is the double-boxed value. " +
		"R2 every evaluated argument expression is appended before the next one is evaluated or the list is returned; the spread list's length must match the remaining parameters exactly. " +
		"R3 all results come back: none -> nil value, one -> that very value, several -> a list built by a loop that appends once per element; for VM functions value and error are unboxed from results 0 and 1 and a non-nil error wins. " +
		"R4 bindings are stored and returned untouched in package env. " +
		"R5 the callback adapter boxes every incoming argument, passes the VM function's result through the result protocol with failure -> panic on every path, and converts results to Out(rt, i). " +
		"R13 a bulk copy (reflect.Copy) in package vm whose element count is dropped copies into a destination that was made with the source's own length on every path: reflect.Copy stops silently at the shorter side, so a fixed-length destination (an array) loses elements where the element-by-element conversion reports an error. " +
		"R6 a call node built from another node copies every field they share; member lookups all use the node's Name and the method lookup on the value precedes the pointer indirection.")
	r.Assume("the conversion table for all (source kind, target kind) pairs, numeric truncation, and which Go signatures a host registers are not decided")
	m, err := buildVMModel(p)
	if err != nil {
		r.Undecided("C11.R1", "model", "vm", err.Error())
		return
	}
	sums := buildTypeSummaries(m)
	va := buildEvalAnalysis(m)
	callFollowsFlag(p, r, m, "C11.R7")
	c10ContainerConverters(p, r, m, "C11.R8")
	c11InterfacePassThrough(p, r, m)
	r.Explain("R10 inside one function, the places that copy elements of one sequence into another (all but the last parameter in a loop, the last one on its own, variadic or not) agree on the distance between source and destination index.")
	r.Floor("C11.R10", indexOffsetsAgree(p, r, SrcFuncs(m.sp), "C11.R10"), 3)
	if os.Getenv("ANKO_DBG_IDX") != "" {
		for _, sfx := range []string{"env", "core", "parser", "ast/astutil", "packages", "cmd/anko"} {
			if sp := p.SSAPkg(sfx); sp != nil {
				indexOffsetsAgree(p, r, SrcFuncs(sp), "C11.R10")
			}
		}
	}
	r.Explain("R11 in the address-of handler the addressability test and Addr() are applied to the value the operand's evaluation left, not to a value derived from it.")
	c11AddrOfSlot(p, r, m)
	r.Explain("R12 a value stored in a map comes back as it is: the map read helper returns the shared nil value only for a missing key, never for an entry that was found (a typed nil keeps its type).")
	c10FoundEntryReturned(p, r, m, "C11.R12")
	c11Args(p, r, m, sums, va)
	c11Results(p, r, m)
	c11Env(p, r)
	c11Adapter(p, r, m, sums)
	c11Forwarding(p, r, m)
	c11BulkCopy(p, r, m, "C11.R13")
}

type symI struct {
	base string
	off  int64
}

func (s symI) String() string {
	if s.base == "" {
		return fmt.Sprint(s.off)
	}
	if s.off == 0 {
		return s.base
	}
	return fmt.Sprintf("%s%+d", s.base, s.off)
}

// symIdx: an integer as base+offset: constants, phis and other values by name, NumIn()/NumOut()/Len() calls by their receiver.
func symIdx(v ssa.Value, depth int) symI {
	if depth > 8 {
		return symI{"?", 0}
	}
	switch x := v.(type) {
	case *ssa.Const:
		if x.Value != nil {
			return symI{"", x.Int64()}
		}
	case *ssa.BinOp:
		if c, ok := x.Y.(*ssa.Const); ok && c.Value != nil {
			s := symIdx(x.X, depth+1)
			switch x.Op {
			case token.ADD:
				s.off += c.Int64()
				return s
			case token.SUB:
				s.off -= c.Int64()
				return s
			}
		}
	case *ssa.Call:
		if x.Call.IsInvoke() {
			return symI{x.Call.Method.Name() + "(" + x.Call.Value.Name() + ")", 0}
		}
	case *ssa.Phi:
		// a phi whose edges all agree is that value
		var res *symI
		same := true
		for _, e := range x.Edges {
			if e == ssa.Value(x) {
				continue
			}
			s := symIdx(e, depth+1)
			if res == nil {
				res = &s
			} else if *res != s {
				same = false
			}
		}
		if same && res != nil {
			return *res
		}
	}
	return symI{"#" + v.Name(), 0}
}

type lenAnalysis struct {
	memo map[ssa.Value]symI
}

// lenOf: the length of a slice value built by make/append/literals, as base+offset; phis are resolved by pairing with an
// integer phi of the same block whose incoming values equal the incoming lengths edge by edge (induction).
func (la *lenAnalysis) lenOf(v ssa.Value, pref string, depth int) (symI, bool) {
	if s, ok := la.memo[v]; ok {
		return s, true
	}
	if depth > 12 {
		return symI{}, false
	}
	switch x := v.(type) {
	case *ssa.MakeSlice:
		return symIdx(x.Len, 0), true
	case *ssa.Slice:
		if al, ok := x.X.(*ssa.Alloc); ok {
			if at, ok := derefType(al.Type()).Underlying().(*types.Array); ok && x.Low == nil && x.High == nil {
				return symI{"", at.Len()}, true
			}
		}
		if x.High != nil {
			if c, ok := x.High.(*ssa.Const); ok && c.Value != nil && x.Low == nil {
				return symI{"", c.Int64()}, true
			}
		}
	case *ssa.Const:
		if x.Value == nil {
			return symI{"", 0}, true
		}
	case *ssa.Call:
		if b, ok := x.Call.Value.(*ssa.Builtin); ok && b.Name() == "append" {
			s, ok := la.lenOf(x.Call.Args[0], pref, depth+1)
			if !ok {
				return symI{}, false
			}
			els := variadicElems(x.Call.Args[1])
			if els == nil {
				return symI{}, false
			}
			s.off += int64(len(els))
			return s, true
		}
	case *ssa.Phi:
		var ints []*ssa.Phi
		for _, in := range x.Block().Instrs {
			if ph, ok := in.(*ssa.Phi); ok {
				if b, ok := ph.Type().Underlying().(*types.Basic); ok && b.Kind() == types.Int {
					if "#"+ph.Name() == pref {
						ints = append([]*ssa.Phi{ph}, ints...)
					} else {
						ints = append(ints, ph)
					}
				}
			}
		}
		for _, ip := range ints {
			la.memo[x] = symI{"#" + ip.Name(), 0}
			ok := true
			for k, e := range x.Edges {
				l, lok := la.lenOf(e, pref, depth+1)
				want := symIdx(ip.Edges[k], 0)
				if ip.Edges[k] == ssa.Value(ip) {
					want = symI{"#" + ip.Name(), 0}
				}
				if !lok || l != want {
					ok = false
					break
				}
			}
			if ok {
				return la.memo[x], true
			}
			delete(la.memo, x)
		}
		// all edges equal
		var res *symI
		for _, e := range x.Edges {
			l, ok := la.lenOf(e, pref, depth+1)
			if !ok {
				return symI{}, false
			}
			if res == nil {
				res = &l
			} else if *res != l {
				return symI{}, false
			}
		}
		if res != nil {
			return *res, true
		}
	}
	return symI{}, false
}

// builtinAppend: in is `append(s, x)` with one element; returns s and x.
func builtinAppend(in ssa.Instruction) (*ssa.Call, ssa.Value, []ssa.Value) {
	c, ok := in.(*ssa.Call)
	if !ok {
		return nil, nil, nil
	}
	b, ok := c.Call.Value.(*ssa.Builtin)
	if !ok || b.Name() != "append" {
		return nil, nil, nil
	}
	return c, c.Call.Args[0], variadicElems(c.Call.Args[1])
}

// branchOnParam: how block b is related to a boolean parameter: "true", "false" or "" (not decided by a dominating test).
func branchOnParam(b *ssa.BasicBlock, par ssa.Value) string {
	for d := b; d != nil && d.Idom() != nil; d = d.Idom() {
		id := d.Idom()
		iff, ok := id.Instrs[len(id.Instrs)-1].(*ssa.If)
		if !ok || iff.Cond != par {
			continue
		}
		if edgeOnly(id, 0, d) {
			return "true"
		}
		if edgeOnly(id, 1, d) {
			return "false"
		}
	}
	return ""
}

func c11Args(p *Program, r *Report, m *vmModel, sums *typeSummaries, va *evalAnalysis) {
	// the argument builder: the function of vm that takes the callee's reflect.Type and the call node and returns ([]reflect.Value, bool)
	var mk *ssa.Function
	for _, fn := range m.fns {
		sg := fn.Signature
		if sg.Results().Len() == 2 && sg.Results().At(0).Type().String() == "[]reflect.Value" && m.baseOf(fn) != nil {
			for _, par := range fn.Params {
				if par.Type().String() == "reflect.Type" {
					mk = fn
				}
			}
		}
	}
	if mk == nil {
		r.Undecided("C11.R1", "argument builder", "vm", "no function (reflect.Type, ..., *ast.CallExpr) ([]reflect.Value, bool) found")
		return
	}
	var rtPar, vmPar ssa.Value
	for _, par := range mk.Params {
		if par.Type().String() == "reflect.Type" {
			rtPar = par
		}
		if b, ok := par.Type().(*types.Basic); ok && b.Kind() == types.Bool {
			vmPar = par
		}
	}
	tt := newTypeTerms(m, mk, sums)
	la := &lenAnalysis{memo: map[ssa.Value]symI{}}
	rtName := "p:" + rtPar.Name()
	nIn := "NumIn(" + rtPar.Name() + ")"
	n := 0
	per := map[string]int{}
	type appended struct {
		call *ssa.Call
		el   ssa.Value
	}
	var apps []appended
	for _, b := range mk.Blocks {
		for _, in := range b.Instrs {
			c, sl, els := builtinAppend(in)
			if c == nil || sl.Type().String() != "[]reflect.Value" {
				continue
			}
			if len(els) != 1 {
				n++
				r.Undecided("C11.R1", funcName(mk)+"|append", p.Pos(c.Pos()), "appended elements not identified")
				continue
			}
			el := els[0]
			apps = append(apps, appended{c, el})
			side := ""
			if vmPar != nil {
				side = branchOnParam(b, vmPar)
			}
			n++
			// the context argument of VM functions
			if box, ok := el.(*ssa.Call); ok {
				if o := calleeObj(box); o != nil && isFuncNamed(o, "reflect", "", "ValueOf") {
					if mi, ok := box.Call.Args[0].(*ssa.MakeInterface); ok && isReflectValue(mi.X.Type()) {
						per["boxed"]++
						r.Check(side == "true", "C11.R1", fmt.Sprintf("%s|boxed argument #%d", funcName(mk), per["boxed"]), p.Pos(c.Pos()), "VM functions receive the value double-boxed", "a value is double-boxed (reflect.ValueOf of a reflect.Value) on a path that also serves Go functions")
						continue
					}
					if side == "true" {
						per["ctx"]++
						r.OK("C11.R1", fmt.Sprintf("%s|context argument #%d", funcName(mk), per["ctx"]), p.Pos(c.Pos()), "the context of a VM function")
						continue
					}
				}
			}
			per["converted"]++
			inst := fmt.Sprintf("%s|converted argument #%d", funcName(mk), per["converted"])
			if side == "true" {
				r.Fail("C11.R1", inst, p.Pos(c.Pos()), "a VM function receives a value that is not double-boxed")
				continue
			}
			if u := tt.unchecked(el, b); u != "" {
				r.Fail("C11.R1", inst, p.Pos(c.Pos()), "the argument comes from "+u+" whose error is not tested before it is appended")
				continue
			}
			ty := tt.vtype(el)
			switch {
			case strings.HasPrefix(ty, "In("+rtName+",") && !strings.HasPrefix(ty, "In("+rtName+",#t") && false:
			case strings.HasPrefix(ty, "In("+rtName+","):
				// In(rt, k): k must be the position the argument lands at, or the last parameter (spread slice)
				idxV := c11InIndex(tt, el)
				if idxV == nil {
					r.Undecided("C11.R1", inst, p.Pos(c.Pos()), "parameter index of "+ty+" not identified")
					continue
				}
				want := symIdx(idxV, 0)
				if want.base == nIn && want.off == -1 {
					r.OK("C11.R1", inst, p.Pos(c.Pos()), "converted to the type of the last parameter "+ty)
					continue
				}
				got, ok := la.lenOf(sl, want.base, 0)
				r.Check(ok && got == want, "C11.R1", inst, p.Pos(c.Pos()), "converted to In(rt, "+want.String()+") and appended at position "+got.String(),
					fmt.Sprintf("the argument is converted to the type of parameter %s but lands at position %s (ok=%v)", want, got, ok))
			case strings.HasPrefix(ty, "Elem(In("+rtName+","):
				idxV := c11InIndex(tt, el)
				want := symI{"?", 0}
				if idxV != nil {
					want = symIdx(idxV, 0)
				}
				r.Check(want.base == nIn && want.off == -1, "C11.R1", inst, p.Pos(c.Pos()), "converted to the element type of the variadic parameter", "the variadic element type is taken from parameter "+want.String()+", not the last one")
			case strings.HasPrefix(ty, "T(#"):
				// a type chosen among In(rt, last) and its element under a kind test
				r.Check(c11LastParamChoice(tt, el, nIn), "C11.R1", inst, p.Pos(c.Pos()), "converted to the last parameter's type (or its element type under a kind test)", "the conversion target "+ty+" is not derived from the last parameter's type")
			default:
				r.Fail("C11.R1", inst, p.Pos(c.Pos()), "a Go function receives a value of type "+ty+": not the result of a conversion to one of its parameter types")
			}
		}
	}
	r.Floor("C11.R1", n, 11)

	// R2: every evaluated argument expression is appended before the next evaluation or a successful return
	n2 := 0
	derives := func(el ssa.Value, ev *ssa.Call) bool { return c11DerivesFromEvent(tt, el, ev, 0) }
	k := 0
	for _, e := range va.events[mk] {
		if e.role != "expr" {
			continue
		}
		k++
		n2++
		use := map[*ssa.BasicBlock]bool{}
		for _, a := range apps {
			if derives(a.el, e.call) {
				use[a.call.Block()] = true
				if c11IsElementOf(tt, a.el) {
					// elements of a spread list are appended by a loop; that the loop covers the list is the spread length rule's business
					for _, lp := range loopsOf(mk) {
						if lp.Body[a.call.Block()] {
							use[lp.Header] = true
						}
					}
				}
			}
		}
		stop := func(b *ssa.BasicBlock) bool { return use[b] || c10ErrorBlock(m, tt, b) }
		bad := ""
		start := e.call.Block()
		// the use may be later in the same block
		if !use[start] {
			for b := range reachable(start, func(b *ssa.BasicBlock) bool { return b != start && stop(b) }) {
				if b != start && stop(b) {
					continue
				}
				if ret, ok := b.Instrs[len(b.Instrs)-1].(*ssa.Return); ok && !isNilConst(ret.Results[0]) {
					bad = "the list is returned at " + p.Pos(instrPos(ret))
				}
				if b != start {
					for _, e2 := range va.events[mk] {
						if e2.role == "expr" && e2.call.Block() == b && e2 != e {
							bad = "the next argument is evaluated at " + p.Pos(e2.call.Pos())
						}
					}
				}
			}
		}
		r.Check(bad == "", "C11.R2", fmt.Sprintf("%s|evaluated argument #%d reaches the list", funcName(mk), k), p.Pos(e.call.Pos()), "appended on every successful path", "an argument is evaluated but "+bad+" without it having been appended")
	}
	// the spread list must match the remaining parameters exactly
	for _, b := range mk.Blocks {
		for _, in := range b.Instrs {
			bo, ok := in.(*ssa.BinOp)
			if !ok {
				continue
			}
			lc, ok := bo.X.(*ssa.Call)
			if !ok || reflectMethod(lc) != "Len" {
				continue
			}
			isSpread := false
			for _, e := range va.events[mk] {
				if e.role == "expr" && c11DerivesFromEvent(tt, lc.Call.Args[0], e.call, 0) {
					isSpread = true
				}
			}
			if !isSpread {
				continue
			}
			if _, isConst := bo.Y.(*ssa.Const); isConst {
				continue
			}
			n2++
			r.Check(bo.Op == token.NEQ, "C11.R2", funcName(mk)+"|spread length test", p.Pos(bo.Pos()), "a spread list must have exactly as many elements as parameters remain",
				"a spread list is only rejected when it has too few elements (`"+bo.Op.String()+"`): surplus elements of f(a, list...) are silently dropped instead of the call failing as in Go")
		}
	}
	r.Floor("C11.R2", n2, 6)

	// direct calls of concrete VM function signatures pass the evaluated arguments in order
	c11Positional(p, r, m)
	c11DirectSignatures(p, r, m)
	c11SlotsFilled(p, r, m)
	c11DirectGuards(p, r, m)
}

// c11IsElementOf: the appended value is (a conversion or boxing of) x.Index(i).
func c11IsElementOf(tt *typeTerms, v ssa.Value) bool {
	for depth := 0; depth < 8; depth++ {
		if sv, _ := tt.resolveLoad(v); sv != nil {
			v = sv
			continue
		}
		switch x := v.(type) {
		case *ssa.Extract:
			if c, ok := x.Tuple.(*ssa.Call); ok && len(c.Call.Args) > 0 {
				v = c.Call.Args[0]
				continue
			}
		case *ssa.MakeInterface:
			v = x.X
			continue
		case *ssa.Call:
			if reflectMethod(x) == "Index" {
				return true
			}
			if o := calleeObj(x); o != nil && isFuncNamed(o, "reflect", "", "ValueOf") {
				v = x.Call.Args[0]
				continue
			}
		}
		return false
	}
	return false
}

// c11InIndex: the index operand k of the In(rt, k) type the conversion feeding el was given.
func c11InIndex(tt *typeTerms, el ssa.Value) ssa.Value {
	if sv, _ := tt.resolveLoad(el); sv != nil {
		el = sv
	}
	ex, ok := el.(*ssa.Extract)
	if !ok {
		return nil
	}
	c, ok := ex.Tuple.(*ssa.Call)
	if !ok || len(c.Call.Args) < 2 {
		return nil
	}
	return inIndexOfType(c.Call.Args[1], 0)
}

func inIndexOfType(t ssa.Value, depth int) ssa.Value {
	if depth > 6 {
		return nil
	}
	switch x := t.(type) {
	case *ssa.Call:
		if x.Call.IsInvoke() {
			switch x.Call.Method.Name() {
			case "In", "Out":
				return x.Call.Args[0]
			case "Elem":
				return inIndexOfType(x.Call.Value, depth+1)
			}
		}
	case *ssa.Phi:
		var res ssa.Value
		for _, e := range x.Edges {
			v := inIndexOfType(e, depth+1)
			if v == nil {
				return nil
			}
			if res != nil && symIdx(res, 0) != symIdx(v, 0) {
				return nil
			}
			res = v
		}
		return res
	}
	return nil
}

// c11LastParamChoice: the conversion target is a phi over In(rt, NumIn-1) and its Elem.
func c11LastParamChoice(tt *typeTerms, el ssa.Value, nIn string) bool {
	v := c11InIndex(tt, el)
	if v == nil {
		return false
	}
	s := symIdx(v, 0)
	return s.base == nIn && s.off == -1
}

// c11DerivesFromEvent: v is (a conversion, boxing, unwrapping or element of) the value the evaluation ev left in the value cell.
func c11DerivesFromEvent(tt *typeTerms, v ssa.Value, ev *ssa.Call, depth int) bool {
	if depth > 10 {
		return false
	}
	if u, ok := v.(*ssa.UnOp); ok && u.Op == token.MUL && tt.base != nil && tt.m.cellAddr(u.X, tt.base) == "rv" {
		defs := tt.before[u]["rv"]
		if len(defs) == 0 {
			return false
		}
		for d := range defs {
			switch x := d.(type) {
			case *ssa.Store:
				if !c11DerivesFromEvent(tt, x.Val, ev, depth+1) {
					return false
				}
			case *ssa.Call:
				if x != ev {
					return false
				}
			default:
				return false
			}
		}
		return true
	}
	if sv := spilledValue(v); sv != nil {
		return c11DerivesFromEvent(tt, sv, ev, depth+1)
	}
	switch x := v.(type) {
	case *ssa.Extract:
		if c, ok := x.Tuple.(*ssa.Call); ok && x.Index == 0 && len(c.Call.Args) > 0 {
			if _, ok := tt.resTypeParam[staticCallee(c)]; ok {
				return c11DerivesFromEvent(tt, c.Call.Args[0], ev, depth+1)
			}
		}
	case *ssa.MakeInterface:
		return c11DerivesFromEvent(tt, x.X, ev, depth+1)
	case *ssa.Call:
		switch reflectMethod(x) {
		case "Elem", "Index":
			return c11DerivesFromEvent(tt, x.Call.Args[0], ev, depth+1)
		}
		if o := calleeObj(x); o != nil && isFuncNamed(o, "reflect", "", "ValueOf") {
			return c11DerivesFromEvent(tt, x.Call.Args[0], ev, depth+1)
		}
	case *ssa.Phi:
		for _, e := range x.Edges {
			if !c11DerivesFromEvent(tt, e, ev, depth+1) {
				return false
			}
		}
		return len(x.Edges) > 0
	}
	return false
}

// c11Positional: calls through a func-typed variable whose arguments are read from a slice pass elements 0..n-1 in order,
// and function literals that forward their parameters as a slice literal keep their order.
func c11Positional(p *Program, r *Report, m *vmModel) {
	n := 0
	for _, fn := range m.fns {
		per := 0
		for _, b := range fn.Blocks {
			for _, in := range b.Instrs {
				c, ok := in.(ssa.CallInstruction)
				if !ok || c.Common().IsInvoke() || staticCallee(c) != nil {
					continue
				}
				if _, isBuiltin := c.Common().Value.(*ssa.Builtin); isBuiltin {
					continue
				}
				sg, ok := c.Common().Value.Type().Underlying().(*types.Signature)
				if !ok || sg.Params().Len() < 2 || !isReflectValue(sg.Params().At(1).Type()) {
					continue
				}
				// arguments 1.. are reflect.Values read from one slice
				var idx []int64
				okAll := true
				var src ssa.Value
				for _, a := range c.Common().Args[1:] {
					u, ok := a.(*ssa.UnOp)
					if !ok {
						okAll = false
						break
					}
					ia, ok := u.X.(*ssa.IndexAddr)
					if !ok {
						okAll = false
						break
					}
					ic, ok := ia.Index.(*ssa.Const)
					if !ok {
						okAll = false
						break
					}
					base := ia.X
					if l, ok := base.(*ssa.UnOp); ok && l.Op == token.MUL {
						base = l.X // the slice variable is spilled because closures refer to it: compare its address
					}
					if src != nil && src != base {
						okAll = false
					}
					src = base
					idx = append(idx, ic.Int64())
				}
				if !okAll {
					continue
				}
				n++
				per++
				inOrder := true
				for i, k := range idx {
					if int64(i) != k {
						inOrder = false
					}
				}
				r.Check(inOrder, "C11.R2", fmt.Sprintf("%s|direct call #%d", funcName(fn), per), p.Pos(instrPos(in)), fmt.Sprintf("arguments 0..%d in order", len(idx)-1), fmt.Sprintf("the evaluated arguments are passed in the order %v", idx))
			}
		}
		// func(ctx, arg0..argN) { return inner(ctx, []reflect.Value{arg0..argN}) }
		if fn.Parent() != nil && len(fn.Params) >= 2 && isReflectValue(fn.Params[1].Type()) {
			for _, b := range fn.Blocks {
				for _, in := range b.Instrs {
					sl, ok := in.(*ssa.Slice)
					if !ok {
						continue
					}
					al, ok := sl.X.(*ssa.Alloc)
					if !ok {
						continue
					}
					at, ok := derefType(al.Type()).Underlying().(*types.Array)
					if !ok || !isReflectValue(at.Elem()) {
						continue
					}
					got := map[int64]int{}
					for _, ref := range *al.Referrers() {
						if ia, ok := ref.(*ssa.IndexAddr); ok {
							ic, _ := ia.Index.(*ssa.Const)
							for _, r2 := range *ia.Referrers() {
								if st, ok := r2.(*ssa.Store); ok && ic != nil {
									for pi, par := range fn.Params {
										if st.Val == ssa.Value(par) {
											got[ic.Int64()] = pi
										}
									}
								}
							}
						}
					}
					n++
					good := int64(len(got)) == at.Len() && int(at.Len()) == len(fn.Params)-1
					for k, pi := range got {
						if int(k)+1 != pi {
							good = false
						}
					}
					r.Check(good, "C11.R2", funcName(fn)+"|forwarded parameters", p.Pos(sl.Pos()), "parameters forwarded in order", "the wrapper forwards its parameters in a different order or drops one")
				}
			}
		}
	}
	r.Note("C11.R2 positional call sites", n)
}

// c11Results (R3): the result protocol.
func c11Results(p *Program, r *Report, m *vmModel) {
	// func([]reflect.Value, bool, bool) (reflect.Value, error)
	var pr *ssa.Function
	for _, fn := range m.fns {
		sg := fn.Signature
		if sg.Params().Len() == 3 && sg.Params().At(0).Type().String() == "[]reflect.Value" && sg.Results().Len() == 2 && isReflectValue(sg.Results().At(0).Type()) && isErrorType(sg.Results().At(1).Type()) {
			pr = fn
		}
	}
	if pr == nil {
		r.Undecided("C11.R3", "result protocol", "vm", "no func([]reflect.Value, bool, bool) (reflect.Value, error) found")
		return
	}
	rvs := pr.Params[0]
	vmPar := pr.Params[1]
	nilG := m.nilValueGlobal()
	n := 0
	for _, b := range pr.Blocks {
		ret, ok := b.Instrs[len(b.Instrs)-1].(*ssa.Return)
		if !ok {
			continue
		}
		n++
		side := branchOnParam(b, vmPar)
		inst := fmt.Sprintf("%s|return at block %d", pr.Name(), b.Index)
		site := p.Pos(instrPos(ret))
		val, ev := ret.Results[0], ret.Results[1]
		switch side {
		case "false": // Go function
			ln, op := lenGuard(b, rvs)
			switch {
			case !isNilConst(ev):
				r.Fail("C11.R3", inst, site, "the results of a Go function are turned into an error")
			case isGlobalLoad(val, nilG):
				r.Check(ln == 0 && op == "==", "C11.R3", inst, site, "no result: the nil value", "the nil value is returned although the function has results (len test "+op+fmt.Sprint(ln)+")")
			case isSliceElem(val, rvs, 0):
				r.Check(ln == 1 && op == "==", "C11.R3", inst, site, "one result: that very value", "only the first result is returned although the function may have several")
			default:
				okAll := wholeSlice(val, rvs, m)
				r.Check(okAll != "", "C11.R3", inst, site, "several results: "+okAll, "several results are not returned as a list of all of them")
			}
		case "true": // VM function
			if isNilConst(ev) {
				// success: value unboxed from result 0, under the nil test of the error unboxed from result 1
				good := unboxedFrom(val, rvs, 0) && dominatedByIsNilOf(b, rvs, 1)
				r.Check(good, "C11.R3", inst, site, "VM function succeeded: the value unboxed from result 0, after the error in result 1 tested nil", "the value of a VM function is returned without testing its error result, or is not result 0")
			} else if isGlobalLoad(val, nilG) {
				r.OK("C11.R3", inst, site, "VM function failed or broke the protocol: nil value and an error")
			} else {
				r.Fail("C11.R3", inst, site, "a failing VM function call returns a value other than nil")
			}
		default:
			r.Fail("C11.R3", inst, site, "a return that is not decided by the kind of function called")
		}
	}
	r.Floor("C11.R3", n, 8)
	// the list builder appends once per element
	for _, fn := range m.fns {
		sg := fn.Signature
		if sg.Params().Len() == 1 && sg.Params().At(0).Type().String() == "[]reflect.Value" && sg.Results().Len() == 1 && isReflectValue(sg.Results().At(0).Type()) && len(fn.Blocks) > 0 {
			good, why := appendsOncePerElement(fn)
			r.Check(good, "C11.R3", fn.Name()+"|one element per result", p.Pos(fn.Pos()), "a range over all results with exactly one append on every path of the body", why)
			// every result that can be handed over is handed over: the append of value.Interface() depends on CanInterface() alone
			for _, b := range fn.Blocks {
				for _, in := range b.Instrs {
					c, ok := in.(*ssa.Call)
					if !ok || reflectMethod(c) != "Interface" {
						continue
					}
					extra := ""
					for d := b; d != nil && d.Idom() != nil; d = d.Idom() {
						id := d.Idom()
						iff, ok := id.Instrs[len(id.Instrs)-1].(*ssa.If)
						if !ok || !(edgeOnly(id, 0, d) || edgeOnly(id, 1, d)) {
							continue
						}
						cond := iff.Cond
						if u, ok := cond.(*ssa.UnOp); ok && u.Op == token.NOT {
							cond = u.X
						}
						if cc, ok := cond.(*ssa.Call); ok {
							if reflectMethod(cc) == "CanInterface" {
								continue
							}
							extra = "a call of " + calleeName(cc)
						} else if _, isBin := cond.(*ssa.BinOp); isBin {
							if k, _ := kindCmp(cond); k != nil {
								extra = "a test of the result's kind"
							}
						}
					}
					r.Check(extra == "", "C11.R3", fn.Name()+"|every result that can be handed over is", p.Pos(c.Pos()), "value.Interface() is appended whenever CanInterface() holds",
						"whether a result is handed over as it is also depends on "+extra+": results for which that differs (typed nil pointers, slices and maps) reach the script as an untyped nil and lose their type")
				}
			}
			// a result is handed over as it is: only an interface wrapper is removed, a pointer stays a pointer
			for _, b := range fn.Blocks {
				for _, in := range b.Instrs {
					c, ok := in.(*ssa.Call)
					if !ok || reflectMethod(c) != "Elem" {
						continue
					}
					onlyIface := false
					for d := b; d != nil && d.Idom() != nil; d = d.Idom() {
						id := d.Idom()
						if iff, ok := id.Instrs[len(id.Instrs)-1].(*ssa.If); ok {
							if k, K := kindCmp(iff.Cond); k != nil && K == 20 && edgeOnly(id, 0, d) {
								onlyIface = true
							}
						}
					}
					r.Check(onlyIface, "C11.R3", fn.Name()+"|results keep their dynamic type", p.Pos(c.Pos()), "only an interface wrapper is removed from a result", "a result is dereferenced on a path that is not restricted to interface values (a pointer result would reach the script as a copy of what it points to)")
				}
			}
		}
	}
}

func isGlobalLoad(v ssa.Value, g *ssa.Global) bool {
	u, ok := v.(*ssa.UnOp)
	return ok && g != nil && u.X == ssa.Value(g)
}

func isSliceElem(v ssa.Value, sl ssa.Value, k int64) bool {
	u, ok := v.(*ssa.UnOp)
	if !ok {
		return false
	}
	ia, ok := u.X.(*ssa.IndexAddr)
	if !ok || ia.X != sl {
		return false
	}
	c, ok := ia.Index.(*ssa.Const)
	return ok && c.Int64() == k
}

// lenGuard: the nearest dominating test `len(sl) == k` on whose true side b lies (switch on len).
func lenGuard(b *ssa.BasicBlock, sl ssa.Value) (int64, string) {
	for d := b; d != nil && d.Idom() != nil; d = d.Idom() {
		id := d.Idom()
		iff, ok := id.Instrs[len(id.Instrs)-1].(*ssa.If)
		if !ok {
			continue
		}
		bo, ok := iff.Cond.(*ssa.BinOp)
		if !ok {
			continue
		}
		lc, ok := bo.X.(*ssa.Call)
		if !ok {
			continue
		}
		if bi, ok := lc.Call.Value.(*ssa.Builtin); !ok || bi.Name() != "len" || lc.Call.Args[0] != sl {
			continue
		}
		c, ok := bo.Y.(*ssa.Const)
		if !ok {
			continue
		}
		if bo.Op == token.EQL && edgeOnly(id, 0, d) {
			return c.Int64(), "=="
		}
	}
	return -1, "none"
}

// wholeSlice: v is built from the whole slice: reflect.ValueOf(sl) or a helper of vm applied to sl.
func wholeSlice(v ssa.Value, sl ssa.Value, m *vmModel) string {
	c, ok := v.(*ssa.Call)
	if !ok {
		return ""
	}
	if o := calleeObj(c); o != nil && isFuncNamed(o, "reflect", "", "ValueOf") {
		if mi, ok := c.Call.Args[0].(*ssa.MakeInterface); ok && mi.X == sl {
			return "the slice of results itself"
		}
	}
	if callee := staticCallee(c); callee != nil && callee.Pkg == m.sp && len(c.Call.Args) == 1 && c.Call.Args[0] == sl {
		if ok, _ := appendsOncePerElement(callee); ok {
			return "a list with one element per result (" + callee.Name() + ")"
		}
	}
	return ""
}

// appendsOncePerElement: fn ranges over its slice parameter and appends exactly once on every path through the body.
func appendsOncePerElement(fn *ssa.Function) (bool, string) {
	loops := loopsOf(fn)
	if len(loops) != 1 {
		return false, fmt.Sprintf("expected one loop over the results, found %d", len(loops))
	}
	lp := loops[0]
	// the loop is a range over the parameter: its exit test compares the index with len(param)
	isRange := false
	for _, in := range lp.Header.Instrs {
		if bo, ok := in.(*ssa.BinOp); ok && bo.Op == token.LSS {
			if lc, ok := bo.Y.(*ssa.Call); ok {
				if bi, ok := lc.Call.Value.(*ssa.Builtin); ok && bi.Name() == "len" && lc.Call.Args[0] == ssa.Value(fn.Params[0]) {
					isRange = true
				}
			}
		}
	}
	if !isRange {
		return false, "the loop is not bounded by the number of results"
	}
	// count appends along every path header -> header: dataflow of min/max
	type mm struct{ min, max int }
	cnt := map[*ssa.BasicBlock]mm{}
	var order []*ssa.BasicBlock
	for _, b := range fn.Blocks {
		if lp.Body[b] {
			order = append(order, b)
		}
	}
	appendsIn := func(b *ssa.BasicBlock) int {
		k := 0
		for _, in := range b.Instrs {
			if c, _, _ := builtinAppend(in); c != nil {
				k++
			}
		}
		return k
	}
	for iter := 0; iter < len(order)+2; iter++ {
		for _, b := range order {
			if b == lp.Header {
				cnt[b] = mm{0, 0}
				continue
			}
			first := true
			cur := mm{}
			for _, pr := range b.Preds {
				if !lp.Body[pr] {
					continue
				}
				c, ok := cnt[pr]
				if !ok {
					continue
				}
				c.min += appendsIn(pr)
				c.max += appendsIn(pr)
				if first {
					cur, first = c, false
				} else {
					if c.min < cur.min {
						cur.min = c.min
					}
					if c.max > cur.max {
						cur.max = c.max
					}
				}
			}
			if !first {
				cnt[b] = cur
			}
		}
	}
	for _, pr := range lp.Header.Preds {
		if lp.Body[pr] {
			c := cnt[pr]
			c.min += appendsIn(pr)
			c.max += appendsIn(pr)
			if c.min != 1 || c.max != 1 {
				return false, fmt.Sprintf("an iteration appends between %d and %d elements: a result is dropped or duplicated", c.min, c.max)
			}
		}
	}
	return true, ""
}

// unboxedFrom: v is sl[k].Interface().(reflect.Value)
func unboxedFrom(v ssa.Value, sl ssa.Value, k int64) bool {
	ta, ok := v.(*ssa.TypeAssert)
	if !ok {
		if ex, ok2 := v.(*ssa.Extract); ok2 {
			ta, ok = ex.Tuple.(*ssa.TypeAssert)
		}
		if !ok {
			return false
		}
	}
	c, ok := ta.X.(*ssa.Call)
	if !ok || reflectMethod(c) != "Interface" {
		return false
	}
	return isSliceElem(c.Call.Args[0], sl, k)
}

// dominatedByIsNilOf: b lies on the true side of IsNil() of the value unboxed from sl[k].
func dominatedByIsNilOf(b *ssa.BasicBlock, sl ssa.Value, k int64) bool {
	for d := b; d != nil && d.Idom() != nil; d = d.Idom() {
		id := d.Idom()
		iff, ok := id.Instrs[len(id.Instrs)-1].(*ssa.If)
		if !ok {
			continue
		}
		c, ok := iff.Cond.(*ssa.Call)
		if !ok || reflectMethod(c) != "IsNil" || !unboxedFrom(c.Call.Args[0], sl, k) {
			continue
		}
		if edgeOnly(id, 0, d) {
			return true
		}
	}
	return false
}

// c11Env (R4): package env stores and returns bindings untouched.
func c11Env(p *Program, r *Report) {
	sp := p.SSAPkg("env")
	if sp == nil {
		r.Undecided("C11.R4", "package env", "env", "package not loaded")
		return
	}
	n := 0
	for _, fn := range SrcFuncs(sp) {
		if len(fn.Blocks) == 0 {
			continue
		}
		k := 0
		for _, b := range fn.Blocks {
			for _, in := range b.Instrs {
				switch x := in.(type) {
				case *ssa.MapUpdate:
					if !isReflectValue(x.Value.Type()) {
						continue
					}
					n++
					k++
					inst := fmt.Sprintf("%s|stored binding #%d", funcName(fn), k)
					switch v := x.Value.(type) {
					case *ssa.Parameter:
						r.OK("C11.R4", inst, p.Pos(x.Pos()), "the value handed in is stored as it is")
					default:
						// copies made by Copy/DeepCopy: an element read from a table, possibly copied by a helper of env
						r.Check(fromTable(v, 0), "C11.R4", inst, p.Pos(x.Pos()), "an element of a table (copy of a scope)", "a binding is stored that is neither the value handed in nor an existing binding: the host's value is altered on the way in")
					}
				case *ssa.Return:
					if fn.Signature.Results().Len() != 2 || !isReflectValue(fn.Signature.Results().At(0).Type()) || !isErrorType(fn.Signature.Results().At(1).Type()) || !isNilConst(x.Results[1]) {
						continue
					}
					if fn.Signature.Recv() == nil || fn.Signature.Params().Len() != 1 {
						continue
					}
					// lookups that return a reflect.Value unchanged: GetValue-like (not Addr, which returns v.Addr())
					if strings.Contains(fn.Name(), "Addr") {
						continue
					}
					n++
					k++
					inst := fmt.Sprintf("%s|returned binding #%d", funcName(fn), k)
					v := x.Results[0]
					good := false
					if ex, ok := v.(*ssa.Extract); ok && ex.Index == 0 {
						switch t := ex.Tuple.(type) {
						case *ssa.Lookup:
							good = t.CommaOk
						case *ssa.Call:
							good = true // the external lookup's or the parent's own result
						}
					}
					r.Check(good, "C11.R4", inst, p.Pos(instrPos(x)), "the binding as stored (table element, external lookup result or the parent's answer)", "a lookup returns something other than the stored binding")
				}
			}
		}
		// Define/Set: wrap with reflect.ValueOf, nil becomes a nil value
		if fn.Signature.Recv() != nil && fn.Signature.Params().Len() == 2 && types.IsInterface(fn.Signature.Params().At(1).Type()) && !isErrorType(fn.Signature.Params().At(1).Type()) {
			for _, b := range fn.Blocks {
				for _, in := range b.Instrs {
					c, ok := in.(*ssa.Call)
					if !ok {
						continue
					}
					callee := staticCallee(c)
					if callee == nil || callee.Pkg != sp || len(c.Call.Args) != 3 || !isReflectValue(c.Call.Args[2].Type()) {
						continue
					}
					n++
					inst := fmt.Sprintf("%s|wraps for %s at block %d", funcName(fn), callee.Name(), b.Index)
					arg := c.Call.Args[2]
					good, why := true, ""
					// the alternatives the bound value can be (a phi when the wrapper picks the value first and calls once)
					type alt struct {
						v    ssa.Value
						from *ssa.BasicBlock
					}
					alts := []alt{{arg, b}}
					if ph, ok := arg.(*ssa.Phi); ok {
						alts = nil
						for i, e := range ph.Edges {
							alts = append(alts, alt{e, ph.Block().Preds[i]})
						}
					}
					for _, a := range alts {
						vc, ok := a.v.(*ssa.Call)
						if !ok {
							good = false
							continue
						}
						if o := calleeObj(vc); o != nil && isFuncNamed(o, "reflect", "", "ValueOf") && vc.Call.Args[0] == ssa.Value(fn.Params[2]) {
							continue
						}
						if vcallee := staticCallee(vc); vcallee != nil && vcallee.Pkg == sp && len(vc.Call.Args) == 0 {
							// a nil value: only under value == nil
							if !nilGuarded(a.from, fn.Params[2]) && !nilGuarded(vc.Block(), fn.Params[2]) {
								good = false
								why = "a substitute value is bound although the value handed in is not nil"
							}
							continue
						}
						good = false
					}
					if why == "" {
						why = "the value bound is not reflect.ValueOf of the value handed in"
					}
					r.Check(good, "C11.R4", inst, p.Pos(c.Pos()), "reflect.ValueOf(value), or a nil value for nil", why)
				}
			}
		}
	}
	r.Floor("C11.R4", n, 8)
}

func fromTable(v ssa.Value, depth int) bool {
	if depth > 5 {
		return false
	}
	switch x := v.(type) {
	case *ssa.Extract:
		if _, ok := x.Tuple.(*ssa.Next); ok {
			return true
		}
		if l, ok := x.Tuple.(*ssa.Lookup); ok {
			return l.CommaOk
		}
	case *ssa.Lookup:
		return true
	case *ssa.Call:
		// a copying helper applied to a table element
		for _, a := range x.Call.Args {
			if fromTable(a, depth+1) {
				return true
			}
		}
	case *ssa.Phi:
		for _, e := range x.Edges {
			if !fromTable(e, depth+1) {
				return false
			}
		}
		return true
	}
	return false
}

func nilGuarded(b *ssa.BasicBlock, par ssa.Value) bool {
	for d := b; d != nil && d.Idom() != nil; d = d.Idom() {
		id := d.Idom()
		iff, ok := id.Instrs[len(id.Instrs)-1].(*ssa.If)
		if !ok {
			continue
		}
		bo, ok := iff.Cond.(*ssa.BinOp)
		if !ok || bo.X != par || !isNilConst(bo.Y) {
			continue
		}
		if bo.Op == token.EQL && edgeOnly(id, 0, d) {
			return true
		}
		if bo.Op == token.NEQ && edgeOnly(id, 1, d) {
			return true
		}
	}
	return false
}

// c11Adapter (R5): the closure that lets Go call a VM function through a func type.
func c11Adapter(p *Program, r *Report, m *vmModel, sums *typeSummaries) {
	var ad *ssa.Function
	for _, fn := range m.fns {
		for _, b := range fn.Blocks {
			for _, in := range b.Instrs {
				c, ok := in.(*ssa.Call)
				if !ok {
					continue
				}
				if o := calleeObj(c); o != nil && isFuncNamed(o, "reflect", "", "MakeFunc") {
					if mc, ok := c.Call.Args[1].(*ssa.MakeClosure); ok {
						cf := mc.Fn.(*ssa.Function)
						// the adapter calls a captured reflect.Value (the VM function) with Value.Call
						for _, cb := range cf.Blocks {
							for _, cin := range cb.Instrs {
								if cc, ok := cin.(*ssa.Call); ok && reflectMethod(cc) == "Call" {
									if _, isFV := derefLoad(cc.Call.Args[0]).(*ssa.FreeVar); isFV {
										ad = cf
									}
								}
							}
						}
					}
				}
			}
		}
	}
	if ad == nil {
		r.Undecided("C11.R5", "callback adapter", "vm", "no reflect.MakeFunc closure that calls a captured VM function found")
		return
	}
	tt := newTypeTerms(m, ad, sums)
	var call *ssa.Call
	for _, b := range ad.Blocks {
		for _, in := range b.Instrs {
			if c, ok := in.(*ssa.Call); ok && reflectMethod(c) == "Call" {
				call = c
			}
		}
	}
	site := p.Pos(call.Pos())
	// (a) every incoming argument is boxed and passed, in order
	inPar := ad.Params[0]
	boxedLoop := false
	for _, b := range ad.Blocks {
		for _, in := range b.Instrs {
			c, _, els := builtinAppend(in)
			if c == nil || len(els) != 1 {
				continue
			}
			box, ok := els[0].(*ssa.Call)
			if !ok {
				continue
			}
			if o := calleeObj(box); o == nil || !isFuncNamed(o, "reflect", "", "ValueOf") {
				continue
			}
			mi, ok := box.Call.Args[0].(*ssa.MakeInterface)
			if !ok {
				continue
			}
			u, ok := mi.X.(*ssa.UnOp)
			if !ok {
				continue
			}
			ia, ok := u.X.(*ssa.IndexAddr)
			if !ok || ia.X != ssa.Value(inPar) {
				continue
			}
			ph, ok := ia.Index.(*ssa.Phi)
			if !ok || !canonicalInduction(ph) {
				continue
			}
			// loop bound: i < rt.NumIn()
			for _, hin := range ph.Block().Instrs {
				if bo, ok := hin.(*ssa.BinOp); ok && bo.Op == token.LSS && bo.X == ssa.Value(ph) {
					if nc, ok := bo.Y.(*ssa.Call); ok && nc.Call.IsInvoke() && nc.Call.Method.Name() == "NumIn" {
						boxedLoop = true
					}
				}
			}
		}
	}
	r.Check(boxedLoop, "C11.R5", ad.Name()+"|arguments", site, "in[i] boxed and appended for every i < NumIn()", "the adapter does not pass every incoming argument (boxed, in order) to the VM function")
	// (b) the result protocol with failure -> panic on every path to a return
	var proto *ssa.Call
	for _, ref := range *call.Referrers() {
		if c, ok := ref.(*ssa.Call); ok {
			if callee := staticCallee(c); callee != nil && callee.Pkg == m.sp && callee.Signature.Results().Len() == 2 && len(c.Call.Args) > 0 && c.Call.Args[0] == ssa.Value(call) {
				proto = c
			}
		}
	}
	if proto == nil {
		r.Fail("C11.R5", ad.Name()+"|result protocol", site, "the results of the VM function are not passed through the result protocol: an error inside the callback is lost")
	} else {
		bad := ""
		for _, b := range ad.Blocks {
			ret, ok := b.Instrs[len(b.Instrs)-1].(*ssa.Return)
			if !ok {
				continue
			}
			if !tt.succeeded(proto, b) {
				bad = p.Pos(instrPos(ret))
			}
		}
		r.Check(bad == "" && failureDiverges(tt, proto), "C11.R5", ad.Name()+"|result protocol", p.Pos(proto.Pos()), "every return follows the result protocol's nil-error edge; the error edge panics",
			"the adapter can return (at "+bad+") without having tested the VM function's error: an error inside the callback does not surface in the enclosing call")
	}
	// (c) results are converted to Out(rt, i)
	n := 0
	for _, b := range ad.Blocks {
		for _, in := range b.Instrs {
			c, ok := in.(*ssa.Call)
			if !ok {
				continue
			}
			callee := staticCallee(c)
			if _, isConv := sums.typeParam[callee]; !isConv || callee == nil || len(c.Call.Args) != 2 {
				continue
			}
			n++
			ty := tt.tyterm(c.Call.Args[1])
			inst := fmt.Sprintf("%s|result conversion #%d", ad.Name(), n)
			idx := inIndexOfType(c.Call.Args[1], 0)
			good := strings.HasPrefix(ty, "Out(") && idx != nil
			why := "a result is converted to " + ty + ", not to a result type of the func type"
			if good {
				// which result is converted: the protocol's value itself for index 0, or its element i for index i
				src := c.Call.Args[0]
				if ic, ok := src.(*ssa.Call); ok && reflectMethod(ic) == "Index" {
					if symIdx(ic.Call.Args[1], 0) != symIdx(idx, 0) {
						good, why = false, fmt.Sprintf("element %s of the returned list is converted to the type of result %s", symIdx(ic.Call.Args[1], 0), symIdx(idx, 0))
					}
				} else if s := symIdx(idx, 0); s.base != "" || s.off != 0 {
					good, why = false, "the single result is converted to the type of result "+s.String()
				}
				if good && !failureDiverges(tt, c) {
					good, why = false, "a failed result conversion does not panic: the Go caller receives an unconverted value"
				}
			}
			r.Check(good, "C11.R5", inst, p.Pos(c.Pos()), "converted to "+ty+"; failure panics", why)
		}
	}
	r.Floor("C11.R5", n+2, 4)
}

func derefLoad(v ssa.Value) ssa.Value {
	if u, ok := v.(*ssa.UnOp); ok && u.Op == token.MUL {
		return u.X
	}
	return v
}

// canonicalInduction: ph = phi(0, ph+1)
func canonicalInduction(ph *ssa.Phi) bool {
	zero, step := false, false
	for _, e := range ph.Edges {
		if c, ok := e.(*ssa.Const); ok && c.Value != nil && c.Int64() == 0 {
			zero = true
		} else if bo, ok := e.(*ssa.BinOp); ok && bo.Op == token.ADD && bo.X == ssa.Value(ph) {
			if c, ok := bo.Y.(*ssa.Const); ok && c.Int64() == 1 {
				step = true
			}
		} else {
			return false
		}
	}
	return zero && step
}

// failureDiverges: the non-nil side of the test of c's error result cannot reach a return (it panics).
func failureDiverges(tt *typeTerms, c *ssa.Call) bool {
	var errEx ssa.Value
	n := c.Call.Signature().Results().Len()
	for _, ref := range *c.Referrers() {
		if ex, ok := ref.(*ssa.Extract); ok && ex.Index == n-1 {
			errEx = ex
		}
	}
	if errEx == nil {
		return false
	}
	found := false
	for _, b := range c.Parent().Blocks {
		iff, ok := b.Instrs[len(b.Instrs)-1].(*ssa.If)
		if !ok {
			continue
		}
		bo, ok := iff.Cond.(*ssa.BinOp)
		if !ok || !isNilConst(bo.Y) || !tt.sameErr(bo.X, errEx) {
			continue
		}
		edge := 0
		if bo.Op == token.EQL {
			edge = 1
		} else if bo.Op != token.NEQ {
			continue
		}
		found = true
		for rb := range reachable(b.Succs[edge], func(*ssa.BasicBlock) bool { return false }) {
			if _, ok := rb.Instrs[len(rb.Instrs)-1].(*ssa.Return); ok {
				return false
			}
		}
	}
	return found
}

// c11Forwarding (R6): a call node built from another node copies the shared fields; member lookups use the node's Name.
func c11Forwarding(p *Program, r *Report, m *vmModel) {
	n := 0
	for _, fn := range m.fns {
		for _, b := range fn.Blocks {
			for _, in := range b.Instrs {
				al, ok := in.(*ssa.Alloc)
				if !ok {
					continue
				}
				st, ok := derefType(al.Type()).Underlying().(*types.Struct)
				nt := namedOf(derefType(al.Type()))
				if !ok || nt == nil || nt.Obj().Pkg() == nil || !strings.HasSuffix(nt.Obj().Pkg().Path(), "/ast") {
					continue
				}
				// which node are its fields copied from?
				stored := map[string]*types.Var{} // field of the fresh node -> field of the source node it was loaded from
				var srcT *types.Named
				for _, ref := range *al.Referrers() {
					fa, ok := ref.(*ssa.FieldAddr)
					if !ok {
						continue
					}
					for _, r2 := range *fa.Referrers() {
						s, ok := r2.(*ssa.Store)
						if !ok || s.Addr != ssa.Value(fa) {
							continue
						}
						stored[fieldOfAddr(fa).Name()] = nil
						if sf, snt := c11SourceField(s.Val, 0); sf != nil {
							stored[fieldOfAddr(fa).Name()] = sf
							srcT = snt
						}
					}
				}
				if srcT == nil {
					continue
				}
				// the fields the consumers of the fresh node read
				read := map[string]bool{}
				for _, ref := range *al.Referrers() {
					c11Consumers(m, ref, al, nt, read)
				}
				sst := srcT.Underlying().(*types.Struct)
				for i := 0; i < st.NumFields(); i++ {
					f := st.Field(i)
					if f.Embedded() || !read[f.Name()] {
						continue
					}
					for j := 0; j < sst.NumFields(); j++ {
						sf := sst.Field(j)
						if sf.Embedded() || sf.Name() != f.Name() || !types.Identical(sf.Type(), f.Type()) {
							continue
						}
						n++
						from, was := stored[f.Name()]
						inst := fmt.Sprintf("%s|%s built from %s: field %s", funcName(fn), nt.Obj().Name(), srcT.Obj().Name(), f.Name())
						switch {
						case !was:
							r.Fail("C11.R6", inst, p.Pos(al.Pos()), "the "+nt.Obj().Name()+" built in place of the "+srcT.Obj().Name()+" does not copy its "+f.Name()+", which the code that receives it reads: that part of the call is lost")
						case from == nil || from.Name() != f.Name():
							r.Fail("C11.R6", inst, p.Pos(al.Pos()), "field "+f.Name()+" of the fresh node is not filled from the source node's "+f.Name())
						default:
							r.OK("C11.R6", inst, p.Pos(al.Pos()), "copied")
						}
					}
				}
			}
		}
	}
	// member lookups by name
	for _, role := range []string{"expr", "let"} {
		h := m.handlers[role]["MemberExpr"]
		if h == nil {
			continue
		}
		// the field found by name is addressed by its whole index path (promoted fields of embedded structs have a path of several steps)
		for _, b := range h.Blocks {
			for _, in := range b.Instrs {
				c, ok := in.(*ssa.Call)
				if !ok || !c.Call.IsInvoke() || c.Call.Method.Name() != "FieldByName" {
					continue
				}
				whole, partial := false, ""
				var walk func(v ssa.Value, depth int)
				walk = func(v ssa.Value, depth int) {
					if depth > 5 {
						return
					}
					for _, ref := range *v.Referrers() {
						switch x := ref.(type) {
						case *ssa.Extract:
							if x.Index == 0 {
								walk(x, depth+1)
							}
						case *ssa.Field:
							if fieldOfVal(x) != nil && fieldOfVal(x).Name() == "Index" {
								for _, r2 := range *x.Referrers() {
									switch y := r2.(type) {
									case *ssa.Call:
										if reflectMethod(y) == "FieldByIndex" {
											whole = true
										}
									case *ssa.IndexAddr:
										partial = p.Pos(y.Pos())
									case *ssa.Index:
										partial = p.Pos(y.Pos())
									}
								}
							}
						case *ssa.Store:
							if al, ok := x.Addr.(*ssa.Alloc); ok {
								for _, r2 := range *al.Referrers() {
									switch y := r2.(type) {
									case *ssa.FieldAddr:
										if fieldOfAddr(y).Name() == "Index" {
											for _, r3 := range *y.Referrers() {
												if u, ok := r3.(*ssa.UnOp); ok {
													for _, r4 := range *u.Referrers() {
														switch z := r4.(type) {
														case *ssa.Call:
															if reflectMethod(z) == "FieldByIndex" {
																whole = true
															}
														case *ssa.IndexAddr:
															partial = p.Pos(z.Pos())
														}
													}
												}
											}
										}
									}
								}
							}
						}
					}
				}
				walk(c, 0)
				n++
				r.Check(whole && partial == "", "C11.R6", h.Name()+"|field addressed by its whole index path", p.Pos(c.Pos()), "FieldByIndex(field.Index)",
					"the field found by name is not addressed with FieldByIndex on its whole index path (a single step of the path is used at "+partial+"): a field promoted from an embedded struct is read or written at the embedded struct instead")
			}
		}
		var lookups []*ssa.Call
		for _, b := range h.Blocks {
			for _, in := range b.Instrs {
				c, ok := in.(*ssa.Call)
				if !ok {
					continue
				}
				name := ""
				if c.Call.IsInvoke() {
					name = c.Call.Method.Name()
				} else {
					name = reflectMethod(c)
				}
				if name != "MethodByName" && name != "FieldByName" {
					continue
				}
				lookups = append(lookups, c)
				arg := c.Call.Args[len(c.Call.Args)-1]
				good := false
				if u, ok := arg.(*ssa.UnOp); ok {
					if fa, ok := u.X.(*ssa.FieldAddr); ok && fieldOfAddr(fa).Name() == "Name" && fa.X == ssa.Value(h.Params[len(h.Params)-1]) {
						good = true
					}
				}
				n++
				r.Check(good, "C11.R6", fmt.Sprintf("%s|%s #%d uses the member name", h.Name(), name, len(lookups)), p.Pos(c.Pos()), "looked up by the node's Name", "a member is looked up by something other than the node's Name")
			}
		}
		if role == "expr" {
			// the method lookup on the value itself comes first (so that pointer-receiver methods are found on pointers), before the pointer is followed
			var first *ssa.Call
			for _, c := range lookups {
				if reflectMethod(c) == "MethodByName" {
					first = c
				}
			}
			good := first != nil
			if good {
				for _, c := range lookups {
					if c != first && !instrDominates(first, c) {
						good = false
					}
				}
				// no Elem() of a pointer before it
				for _, b := range h.Blocks {
					for _, in := range b.Instrs {
						if e, ok := in.(*ssa.Call); ok && reflectMethod(e) == "Elem" && dominatedByKind(e.Block(), 22) && e.Block() != first.Block() && reachable(e.Block(), func(*ssa.BasicBlock) bool { return false })[first.Block()] {
							good = false
						}
					}
				}
			}
			if good {
				// ... nor inside a helper that produced the value the method is looked up on
				var src func(v ssa.Value, d int) *ssa.Function
				src = func(v ssa.Value, d int) *ssa.Function {
					if d > 4 {
						return nil
					}
					switch x := v.(type) {
					case *ssa.Extract:
						return src(x.Tuple, d+1)
					case *ssa.Call:
						if callee := staticCallee(x); callee != nil && callee.Pkg == h.Pkg && reflectMethod(x) == "" && len(callee.Blocks) > 0 {
							return callee
						}
					case *ssa.Phi:
						for _, e := range x.Edges {
							if f := src(e, d+1); f != nil {
								return f
							}
						}
					case *ssa.UnOp:
						if al, ok := x.X.(*ssa.Alloc); ok {
							for _, ref := range *al.Referrers() {
								if st, ok := ref.(*ssa.Store); ok && st.Addr == ssa.Value(al) {
									if f := src(st.Val, d+1); f != nil {
										return f
									}
								}
							}
						}
					}
					return nil
				}
				if helper := src(first.Call.Args[0], 0); helper != nil {
					for _, b := range helper.Blocks {
						for _, in := range b.Instrs {
							if e, ok := in.(*ssa.Call); ok && reflectMethod(e) == "Elem" && dominatedByKind(e.Block(), 22) {
								good = false
							}
						}
					}
				}
			}
			n++
			r.Check(good, "C11.R6", h.Name()+"|method lookup first", p.Pos(h.Pos()), "Value.MethodByName on the value precedes the pointer indirection and the field lookup", "the method lookup on the value itself does not come first: methods with pointer receivers are not found on pointers")
		}
	}
	r.Floor("C11.R6", n, 6)
	var _ = sort.Strings
}

// dominatedByKind: b lies on the true side of a `Kind() == K` test.
func dominatedByKind(b *ssa.BasicBlock, K int64) bool {
	for d := b; d != nil && d.Idom() != nil; d = d.Idom() {
		id := d.Idom()
		if iff, ok := id.Instrs[len(id.Instrs)-1].(*ssa.If); ok {
			if k, kk := kindCmp(iff.Cond); k != nil && kk == K && edgeOnly(id, 0, d) {
				return true
			}
		}
	}
	return false
}

// c11SourceField: v is a load of a field of an ast node (possibly one alternative of a phi whose other alternatives are fallbacks).
func c11SourceField(v ssa.Value, depth int) (*types.Var, *types.Named) {
	if depth > 4 {
		return nil, nil
	}
	switch x := v.(type) {
	case *ssa.UnOp:
		if sfa, ok := x.X.(*ssa.FieldAddr); ok {
			if snt := namedOf(derefType(sfa.X.Type())); snt != nil && snt.Obj().Pkg() != nil && strings.HasSuffix(snt.Obj().Pkg().Path(), "/ast") {
				return fieldOfAddr(sfa), snt
			}
		}
	case *ssa.Phi:
		for _, e := range x.Edges {
			if f, t := c11SourceField(e, depth+1); f != nil {
				return f, t
			}
		}
	case *ssa.Call:
		// a helper that is handed the source node and hands back (what it makes of) one of its fields:
		// `f := runInfo.resolveCallFunc(callExpr)` returning callExpr.Func, or the value bound to its name
		if callee := staticCallee(x); callee != nil && len(callee.Blocks) > 0 && callee.Signature.Results().Len() == 1 {
			for _, b := range callee.Blocks {
				ret, ok := b.Instrs[len(b.Instrs)-1].(*ssa.Return)
				if !ok || len(ret.Results) != 1 {
					continue
				}
				var back func(v ssa.Value, d int) (*types.Var, *types.Named)
				back = func(v ssa.Value, d int) (*types.Var, *types.Named) {
					if d > 5 {
						return nil, nil
					}
					if f, t := c11SourceField(v, depth+1); f != nil {
						if u, ok := v.(*ssa.UnOp); ok {
							if sfa, ok := u.X.(*ssa.FieldAddr); ok {
								if _, isPar := sfa.X.(*ssa.Parameter); isPar {
									return f, t
								}
							}
						}
					}
					switch y := v.(type) {
					case *ssa.Phi:
						for _, e := range y.Edges {
							if f, t := back(e, d+1); f != nil {
								return f, t
							}
						}
					case *ssa.Call:
						if reflectMethod(y) == "Elem" {
							return back(y.Call.Args[0], d+1)
						}
					}
					return nil, nil
				}
				if f, t := back(ret.Results[0], 0); f != nil {
					return f, t
				}
			}
		}
	}
	return nil, nil
}

// c11NodeFieldsRead: the fields of node type nt that fn (and the functions of vm it passes such a node to) load.
func c11NodeFieldsRead(m *vmModel, fn *ssa.Function, nt *types.Named, read map[string]bool, seen map[*ssa.Function]bool) {
	if fn == nil || seen[fn] || fn.Pkg != m.sp {
		return
	}
	seen[fn] = true
	for _, b := range fn.Blocks {
		for _, in := range b.Instrs {
			switch x := in.(type) {
			case *ssa.FieldAddr:
				if namedOf(derefType(x.X.Type())) != nt {
					continue
				}
				if _, fresh := x.X.(*ssa.Alloc); fresh {
					continue
				}
				for _, ref := range *x.Referrers() {
					if u, ok := ref.(*ssa.UnOp); ok && u.Op == token.MUL {
						read[fieldOfAddr(x).Name()] = true
					}
				}
			case *ssa.Call:
				callee := staticCallee(x)
				if callee == nil || callee.Pkg != m.sp {
					continue
				}
				for _, a := range x.Call.Args {
					if namedOf(derefType(a.Type())) == nt {
						c11NodeFieldsRead(m, callee, nt, read, seen)
					}
				}
			}
		}
	}
}

// c11Consumers: where the fresh node goes: into the expression cell (then its handler reads it) or to a function of vm.
func c11Consumers(m *vmModel, ref ssa.Instruction, al *ssa.Alloc, nt *types.Named, read map[string]bool) {
	switch x := ref.(type) {
	case *ssa.MakeInterface:
		for _, r2 := range *x.Referrers() {
			if st, ok := r2.(*ssa.Store); ok {
				if fa, ok := st.Addr.(*ssa.FieldAddr); ok && m.cell[fa.Field] == "expr" {
					if h := m.handlers["expr"][nt.Obj().Name()]; h != nil {
						c11NodeFieldsRead(m, h, nt, read, map[*ssa.Function]bool{})
					}
				}
			}
		}
	case *ssa.Call:
		if callee := staticCallee(x); callee != nil {
			c11NodeFieldsRead(m, callee, nt, read, map[*ssa.Function]bool{})
		}
	case *ssa.Phi:
		for _, r2 := range *x.Referrers() {
			c11Consumers(m, r2, al, nt, read)
		}
	case *ssa.FieldAddr:
		// read back in the builder itself
		for _, r2 := range *x.Referrers() {
			if u, ok := r2.(*ssa.UnOp); ok && u.Op == token.MUL {
				read[fieldOfAddr(x).Name()] = true
			}
		}
	}
}

// c11DirectSignatures (R2): the concrete VM-function signatures form one family in three places: the function values funcExpr
// creates, the signatures callVMFunctionDirect recognises, and the calls it makes. The sets of arities agree, the arity limit of
// the creator equals the largest arity, and every function variable that is called is also assigned.
func c11DirectSignatures(p *Program, r *Report, m *vmModel) {
	isVMSig := func(sg *types.Signature) (int, bool) {
		if sg == nil || sg.Params().Len() < 1 || sg.Results().Len() != 2 || !isReflectValue(sg.Results().At(0).Type()) || !isReflectValue(sg.Results().At(1).Type()) {
			return 0, false
		}
		if sg.Params().At(0).Type().String() != "context.Context" || sg.Variadic() {
			return 0, false
		}
		for i := 1; i < sg.Params().Len(); i++ {
			if !isReflectValue(sg.Params().At(i).Type()) {
				return 0, false
			}
		}
		return sg.Params().Len() - 1, true
	}
	created := map[int]bool{}
	recognised := map[int]bool{}
	called := map[int]bool{}
	var creator, caller *ssa.Function
	limit := int64(-1)
	for _, fn := range m.fns {
		for _, b := range fn.Blocks {
			for _, in := range b.Instrs {
				switch x := in.(type) {
				case *ssa.Call:
					// reflect.ValueOf(func literal with a concrete VM signature)
					if o := calleeObj(x); o != nil && isFuncNamed(o, "reflect", "", "ValueOf") {
						if mi, ok := x.Call.Args[0].(*ssa.MakeInterface); ok {
							if sg, ok := mi.X.Type().Underlying().(*types.Signature); ok {
								if n, ok := isVMSig(sg); ok {
									created[n] = true
									creator = fn
								}
							}
						}
					}
					if staticCallee(x) == nil && !x.Call.IsInvoke() {
						if sg, ok := x.Call.Value.Type().Underlying().(*types.Signature); ok {
							if n, ok := isVMSig(sg); ok && fn.Parent() == nil {
								called[n] = true
							}
						}
					}
				case *ssa.TypeAssert:
					if sg, ok := x.AssertedType.Underlying().(*types.Signature); ok {
						if n, ok := isVMSig(sg); ok {
							recognised[n] = true
							caller = fn
						}
					}
				}
			}
		}
	}
	if creator == nil || caller == nil {
		r.Undecided("C11.R2", "direct signatures", "vm", "the creator or the direct caller of concrete VM-function signatures was not found")
		return
	}
	// the creator's arity limit: `len(params) <= K`
	for _, b := range creator.Blocks {
		for _, in := range b.Instrs {
			if bo, ok := in.(*ssa.BinOp); ok && bo.Op == token.LEQ {
				if c, ok := bo.Y.(*ssa.Const); ok && c.Value != nil {
					if lc, ok := bo.X.(*ssa.Call); ok {
						if bi, ok := lc.Call.Value.(*ssa.Builtin); ok && bi.Name() == "len" {
							limit = c.Int64()
						}
					}
				}
			}
		}
	}
	set := func(m map[int]bool) string {
		var ks []int
		for k := range m {
			ks = append(ks, k)
		}
		sort.Ints(ks)
		return fmt.Sprint(ks)
	}
	max := -1
	for k := range created {
		if k > max {
			max = k
		}
	}
	dense := true
	for k := 0; k <= max; k++ {
		if !created[k] {
			dense = false
		}
	}
	bad := ""
	switch {
	case !dense:
		bad = "the creator builds function values for arities " + set(created) + ": a function with a missing arity keeps whatever value was computed before"
	case limit >= 0 && int64(max) != limit:
		bad = fmt.Sprintf("the creator's arity limit is %d but its largest concrete signature has %d parameters", limit, max)
	case set(created) != set(recognised):
		bad = "created arities " + set(created) + " but recognised arities " + set(recognised)
	case set(called) != set(recognised):
		bad = "recognised arities " + set(recognised) + " but the direct path calls functions of arities " + set(called) + ": a recognised function is never called"
	}
	r.Check(bad == "", "C11.R2", funcName(creator)+"|concrete signatures agree with "+caller.Name(), p.Pos(creator.Pos()), "arities "+set(created)+" created, recognised and limited alike", bad)
	// evaluated outright for each parameter count n: the conditions of the creator that compare len(params) with a constant are
	// decided, everything else takes both branches; every return is then preceded by the creation of a function value, and a
	// concrete signature created on the way has exactly n value parameters
	{
		base := m.baseOf(creator)
		lenAtom := func(v ssa.Value, n int64) (bool, bool) {
			bo, ok := v.(*ssa.BinOp)
			if !ok {
				return false, false
			}
			k, ok := bo.Y.(*ssa.Const)
			if !ok || k.Value == nil {
				return false, false
			}
			lc, ok := bo.X.(*ssa.Call)
			if !ok {
				return false, false
			}
			if bi, ok := lc.Call.Value.(*ssa.Builtin); !ok || bi.Name() != "len" {
				return false, false
			}
			kk := k.Int64()
			switch bo.Op {
			case token.EQL:
				return n == kk, true
			case token.NEQ:
				return n != kk, true
			case token.LSS:
				return n < kk, true
			case token.LEQ:
				return n <= kk, true
			case token.GTR:
				return n > kk, true
			case token.GEQ:
				return n >= kk, true
			}
			return false, false
		}
		makesFunc := func(b *ssa.BasicBlock) (bool, int) { // stores a function value into the result cell; arity of a concrete one (-1 otherwise)
			for _, in := range b.Instrs {
				st, ok := in.(*ssa.Store)
				if !ok || m.cellAddr(st.Addr, base) != "rv" {
					continue
				}
				c, ok := st.Val.(*ssa.Call)
				if !ok {
					continue
				}
				o := calleeObj(c)
				if isFuncNamed(o, "reflect", "", "MakeFunc") {
					return true, -1
				}
				if isFuncNamed(o, "reflect", "", "ValueOf") {
					if mi, ok := c.Call.Args[0].(*ssa.MakeInterface); ok {
						if sg, ok := mi.X.Type().Underlying().(*types.Signature); ok {
							if a, ok := isVMSig(sg); ok {
								return true, a
							}
						}
					}
				}
			}
			return false, -1
		}
		badW := ""
		for n := int64(0); n <= int64(max)+2; n++ {
			world := map[ssa.Value]bool{}
			for _, b := range creator.Blocks {
				for _, in := range b.Instrs {
					if v, ok := in.(ssa.Value); ok {
						if val, ok := lenAtom(v, n); ok {
							world[v] = val
						}
					}
				}
			}
			// states reachable in this world without having created a function value
			for _, stt := range worldStatesAvoiding(creator, world, func(b *ssa.BasicBlock) bool { mk, _ := makesFunc(b); return mk }) {
				if ret, ok := stt.b.Instrs[len(stt.b.Instrs)-1].(*ssa.Return); ok {
					badW = fmt.Sprintf("for a function with %d parameter(s) the creator can return at %s without having created a function value: the name is bound to whatever value was computed before", n, p.Pos(instrPos(ret)))
				}
			}
			for b := range worldReach(creator, world) {
				if mk, a := makesFunc(b); mk && a >= 0 && int64(a) != n {
					badW = fmt.Sprintf("for a function with %d parameter(s) the creator builds a function value with %d value parameter(s)", n, a)
				}
			}
		}
		r.Check(badW == "", "C11.R2", funcName(creator)+"|a function value for every parameter count", p.Pos(creator.Pos()), fmt.Sprintf("parameter counts 0..%d evaluated: a function value of the right arity is created before every return", max+2), badW)
	}
	// every function variable of the direct caller that is called is assigned
	for _, b := range caller.Blocks {
		for _, in := range b.Instrs {
			al, ok := in.(*ssa.Alloc)
			if !ok {
				continue
			}
			sg, ok := derefType(al.Type()).Underlying().(*types.Signature)
			if !ok {
				continue
			}
			if _, ok := isVMSig(sg); !ok {
				continue
			}
			assigned := false
			for _, ref := range *al.Referrers() {
				if st, ok := ref.(*ssa.Store); ok && st.Addr == ssa.Value(al) && !isNilConst(st.Val) {
					assigned = true
				}
			}
			r.Check(assigned, "C11.R2", fmt.Sprintf("%s|function variable %s is assigned", caller.Name(), al.Comment), p.Pos(al.Pos()), "assigned where its signature is recognised", "the variable is tested and called but never assigned: functions of that signature are recognised and then not called")
		}
	}
}

// c11SlotsFilled (R2): an argument list made with make([]reflect.Value, n) and handed to a VM function has every slot assigned:
// a counting loop fills 0..n-2 and slot n-1 is stored on every path from the `n > 0` test to the call.
func c11SlotsFilled(p *Program, r *Report, m *vmModel) {
	n := 0
	for _, fn := range m.fns {
		for _, b := range fn.Blocks {
			for _, in := range b.Instrs {
				mk, ok := in.(*ssa.MakeSlice)
				if !ok || mk.Type().String() != "[]reflect.Value" {
					continue
				}
				if c, isC := mk.Len.(*ssa.Const); isC && c.Int64() == 0 {
					continue // grown by append
				}
				if mk.Len != mk.Cap {
					continue
				}
				// slots assigned by index
				var lastStores []*ssa.Store
				loopFill := false
				for _, ref := range *mk.Referrers() {
					ia, ok := ref.(*ssa.IndexAddr)
					if !ok {
						continue
					}
					for _, r2 := range *ia.Referrers() {
						st, ok := r2.(*ssa.Store)
						if !ok || st.Addr != ssa.Value(ia) {
							continue
						}
						if bo, ok := ia.Index.(*ssa.BinOp); ok && bo.Op == token.SUB && bo.X == mk.Len {
							if c, ok := bo.Y.(*ssa.Const); ok && c.Int64() == 1 {
								lastStores = append(lastStores, st)
							}
						} else if bo, ok := ia.Index.(*ssa.BinOp); ok && bo.Op == token.SUB && sameLenCall(bo.X, mk.Len) {
							if c, ok := bo.Y.(*ssa.Const); ok && c.Int64() == 1 {
								lastStores = append(lastStores, st)
							}
						} else if ph, ok := ia.Index.(*ssa.Phi); ok && canonicalInduction(ph) {
							loopFill = true
						}
					}
				}
				if !loopFill && len(lastStores) == 0 {
					continue // filled some other way (copy, range with index)
				}
				// the consumer: a call that takes the slice
				var use *ssa.BasicBlock
				for _, ref := range *mk.Referrers() {
					if c, ok := ref.(ssa.CallInstruction); ok {
						use = c.Block()
					}
				}
				if use == nil {
					continue
				}
				n++
				stored := map[*ssa.BasicBlock]bool{}
				for _, st := range lastStores {
					stored[st.Block()] = true
				}
				// from the `n > 0` true edge, every path to the use passes a store of slot n-1
				bad := ""
				if !loopFill {
					bad = "no counting loop fills the leading slots"
				}
				found := false
				for _, b2 := range fn.Blocks {
					iff, ok := b2.Instrs[len(b2.Instrs)-1].(*ssa.If)
					if !ok {
						continue
					}
					bo, ok := iff.Cond.(*ssa.BinOp)
					if !ok || bo.Op != token.GTR || !isZeroConst(bo.Y) || !(bo.X == mk.Len || sameLenCall(bo.X, mk.Len)) {
						continue
					}
					found = true
					start := b2.Succs[0]
					if !stored[start] {
						if reachable(start, func(x *ssa.BasicBlock) bool { return stored[x] })[use] {
							bad = "a path from the `n > 0` test reaches the call without storing slot n-1"
						}
					}
				}
				if !found && bad == "" {
					bad = "the last slot is not filled under an `n > 0` test"
				}
				r.Check(bad == "", "C11.R2", funcName(fn)+"|every argument slot is filled", p.Pos(mk.Pos()), "slots 0..n-2 by a counting loop, slot n-1 on every path", "the argument list handed to the VM function has an unassigned slot ("+bad+"): the last parameter arrives as an invalid value")
			}
		}
	}
	r.Note("C11.R2 slot-filled argument lists", n)
}

// sameLenCall: a and b are len() of the same value.
func sameLenCall(a, b ssa.Value) bool {
	ca, ok1 := a.(*ssa.Call)
	cb, ok2 := b.(*ssa.Call)
	if !ok1 || !ok2 {
		return false
	}
	ba, ok1 := ca.Call.Value.(*ssa.Builtin)
	bb, ok2 := cb.Call.Value.(*ssa.Builtin)
	if !ok1 || !ok2 || ba.Name() != "len" || bb.Name() != "len" {
		return false
	}
	x, y := ca.Call.Args[0], cb.Call.Args[0]
	if x == y {
		return true
	}
	ux, ok1 := x.(*ssa.UnOp)
	uy, ok2 := y.(*ssa.UnOp)
	if ok1 && ok2 {
		fx, ok1 := ux.X.(*ssa.FieldAddr)
		fy, ok2 := uy.X.(*ssa.FieldAddr)
		return ok1 && ok2 && fx.Field == fy.Field && sameBaseLoad(fx.X, fy.X)
	}
	return false
}

func sameBaseLoad(a, b ssa.Value) bool {
	if a == b {
		return true
	}
	ua, ok1 := a.(*ssa.UnOp)
	ub, ok2 := b.(*ssa.UnOp)
	return ok1 && ok2 && ua.X == ub.X
}

// c11DirectGuards (R2): a function variable of the direct path is called only where it tested non-nil, and the direct path is
// entered only for a plain (non-spread) call of a non-variadic function whose parameter count equals the argument count.
func c11DirectGuards(p *Program, r *Report, m *vmModel) {
	n := 0
	for _, fn := range m.fns {
		k := 0
		check := func(site ssa.Instruction, blk *ssa.BasicBlock, al *ssa.Alloc) {
			n++
			k++
			good := false
			for d := blk; d != nil && d.Idom() != nil && !good; d = d.Idom() {
				id := d.Idom()
				iff, ok := id.Instrs[len(id.Instrs)-1].(*ssa.If)
				if !ok {
					continue
				}
				bo, ok := iff.Cond.(*ssa.BinOp)
				if !ok || !isNilConst(bo.Y) {
					continue
				}
				u, ok := bo.X.(*ssa.UnOp)
				if !ok || u.X != ssa.Value(al) {
					continue
				}
				if (bo.Op == token.NEQ && edgeOnly(id, 0, d)) || (bo.Op == token.EQL && edgeOnly(id, 1, d)) {
					good = true
				}
			}
			r.Check(good, "C11.R2", fmt.Sprintf("%s|call of %s under its non-nil test #%d", funcName(fn), al.Comment, k), p.Pos(instrPos(site)), "called only where it tested non-nil",
				"a function variable is called (or started) on a path where it did not test non-nil: the call of the one signature that matched is skipped and a nil function is invoked instead")
		}
		for _, b := range fn.Blocks {
			for _, in := range b.Instrs {
				c, ok := in.(*ssa.Call)
				if !ok {
					continue
				}
				if al := calledLocal(c.Call.Value); al != nil {
					if _, isSig := derefType(al.Type()).Underlying().(*types.Signature); isSig {
						check(in, b, al)
					}
				}
				if callee := staticCallee(c); callee != nil && callee.Pkg == m.sp && startsGoroutineWithParam(callee) {
					for _, a := range c.Call.Args {
						mc, ok := a.(*ssa.MakeClosure)
						if !ok {
							continue
						}
						cf := mc.Fn.(*ssa.Function)
						for _, cb := range cf.Blocks {
							for _, cin := range cb.Instrs {
								cc, ok := cin.(ssa.CallInstruction)
								if !ok {
									continue
								}
								if u, ok := cc.Common().Value.(*ssa.UnOp); ok {
									if fv, ok := u.X.(*ssa.FreeVar); ok {
										for i, v := range cf.FreeVars {
											if v == fv {
												if al, ok := mc.Bindings[i].(*ssa.Alloc); ok {
													if _, isSig := derefType(al.Type()).Underlying().(*types.Signature); isSig {
														check(in, b, al)
													}
												}
											}
										}
									}
								}
							}
						}
					}
				}
			}
		}
	}
	r.Note("C11.R2 guarded function-variable calls", n)

	// the direct path is entered only for plain calls of non-variadic functions with matching counts
	h := m.handlers["expr"]["CallExpr"]
	if h == nil {
		return
	}
	for _, b := range h.Blocks {
		for _, in := range b.Instrs {
			c, ok := in.(*ssa.Call)
			if !ok {
				continue
			}
			callee := staticCallee(c)
			if callee == nil || callee.Pkg != m.sp || callee == m.evalExpr || callee.Signature.Results().Len() != 1 {
				continue
			}
			if bt, ok := callee.Signature.Results().At(0).Type().(*types.Basic); !ok || bt.Kind() != types.Bool || len(c.Call.Args) != 3 {
				continue
			}
			// conditions that dominate the call
			notSpread, notVariadic, counts := false, false, false
			for d := b; d != nil && d.Idom() != nil; d = d.Idom() {
				id := d.Idom()
				iff, ok := id.Instrs[len(id.Instrs)-1].(*ssa.If)
				if !ok {
					continue
				}
				cond := iff.Cond
				switch x := cond.(type) {
				case *ssa.UnOp:
					if fa, ok := x.X.(*ssa.FieldAddr); ok && x.Op == token.MUL && fieldOfAddr(fa).Name() == "VarArg" && edgeOnly(id, 1, d) {
						notSpread = true
					}
				case *ssa.Call:
					if x.Call.IsInvoke() && x.Call.Method.Name() == "IsVariadic" && edgeOnly(id, 1, d) {
						notVariadic = true
					}
				case *ssa.BinOp:
					if x.Op == token.EQL && edgeOnly(id, 0, d) {
						l, rr := symIdx(x.X, 0), symIdx(x.Y, 0)
						if strings.HasPrefix(l.base, "NumIn(") && l.off == -1 && rr.off == 0 {
							counts = true
						}
					}
				}
			}
			bad := ""
			switch {
			case !notSpread:
				bad = "a spread call (f(xs...)) can take the direct path: the list is passed as one argument"
			case !notVariadic:
				bad = "a variadic function can take the direct path"
			case !counts:
				bad = "the direct path is not restricted to calls whose argument count equals the parameter count"
			}
			r.Check(bad == "", "C11.R2", h.Name()+"|direct path only for plain calls", p.Pos(c.Pos()), "entered under !VarArg, !IsVariadic() and NumIn()-1 == number of arguments", bad)
		}
	}
}

// c11InterfacePassThrough (R9): a value converted to the empty interface type arrives as itself. In every conversion helper that
// compares its target type with the interface type, the situation "target is the interface type" (that comparison decided,
// everything else both ways) reaches only returns that give back the argument unchanged: a typed nil, a pointer, a struct passed
// to an interface{} parameter keeps its dynamic type.
func c11InterfacePassThrough(p *Program, r *Report, m *vmModel) {
	ka := buildKindAnalysis(m)
	n := 0
	for _, fn := range m.fns {
		sig := fn.Signature
		if sig.Recv() != nil || sig.Params().Len() != 2 || sig.Results().Len() != 2 || !isReflectValue(sig.Params().At(0).Type()) || !isReflectValue(sig.Results().At(0).Type()) || len(fn.Blocks) == 0 {
			continue
		}
		rt := fn.Params[1]
		world := map[ssa.Value]bool{}
		for _, b := range fn.Blocks {
			for _, in := range b.Instrs {
				bo, ok := in.(*ssa.BinOp)
				if !ok || (bo.Op != token.EQL && bo.Op != token.NEQ) {
					continue
				}
				var other ssa.Value
				switch {
				case bo.X == ssa.Value(rt):
					other = bo.Y
				case bo.Y == ssa.Value(rt):
					other = bo.X
				default:
					continue
				}
				if ka.isInterfaceTypeValue(other) {
					world[bo] = bo.Op == token.EQL
				}
			}
		}
		if len(world) == 0 {
			continue
		}
		n++
		bad := ""
		for _, st := range worldStates(fn, world) {
			ret, ok := st.b.Instrs[len(st.b.Instrs)-1].(*ssa.Return)
			if !ok || len(ret.Results) != 2 {
				continue
			}
			if ret.Results[0] != ssa.Value(fn.Params[0]) {
				bad = "the return at " + p.Pos(instrPos(ret)) + " is reachable when the target is the interface type and gives back something else than the argument"
			}
		}
		r.Check(bad == "", "C11.R9", fn.Name()+"|to the interface type a value passes unchanged", p.Pos(fn.Pos()), "every return reachable with target = interface type returns the argument itself",
			bad+": a value handed to an interface{} parameter (typeOf, a Go function taking interface{}) is altered on the way: a typed nil arrives as the untyped nil")
	}
	r.Floor("C11.R9", n, 1)
}

// c11AddrOfSlot (R11): `&x` hands out the operand's own storage when it has one. In the handler of the address-of expression
// the value whose addressability is tested (and whose address is taken) is the value the operand's evaluation left, on every
// path: a value derived from it (what an interface holds, a copy) is never addressable, so testing the derived value sends
// every operand to the make-a-copy branch and what Go writes through the pointer is lost.
func c11AddrOfSlot(p *Program, r *Report, m *vmModel) {
	h := m.handlers["expr"]["AddrExpr"]
	if h == nil {
		r.Undecided("C11.R11", "AddrExpr", "vm", "handler not found")
		return
	}
	tt := newTypeTerms(m, h, nil)
	n := 0
	for _, b := range h.Blocks {
		for _, in := range b.Instrs {
			c, ok := in.(*ssa.Call)
			if !ok {
				continue
			}
			rm := reflectMethod(c)
			if rm != "CanAddr" && rm != "Addr" {
				continue
			}
			n++
			good, why := false, "the receiver is not read from the value cell"
			if u, ok := c.Call.Args[0].(*ssa.UnOp); ok && u.Op == token.MUL && tt.m.cellAddr(u.X, tt.base) == "rv" {
				good = true
				for d := range tt.before[u]["rv"] {
					call, isCall := d.(*ssa.Call)
					if !isCall || m.evalRole(call, tt.base) == "" {
						good = false
						if d == nil {
							why = "the value cell can still hold what it held on entry"
						} else {
							why = "the value cell can have been rewritten at " + p.Pos(instrPos(d)) + " after the operand was evaluated"
						}
					}
				}
			}
			r.Check(good, "C11.R11", fmt.Sprintf("%s|%s #%d on the evaluated operand", h.Name(), rm, n), p.Pos(c.Pos()),
				"applied to the value the operand's evaluation left in the value cell", why+": the address handed to Go is that of a copy, not of the variable, element or field the script named")
		}
	}
	r.Floor("C11.R11", n, 2)
}

// c11BulkCopy (R13): reflect.Copy(dst, src) copies min(len) elements and says how many. Where that count is dropped, dst
// must have been made with src's own length on every path that reaches the copy (reflect.MakeSlice(t, src.Len(), ...));
// a destination of fixed length (reflect.New(arrayType).Elem()) silently keeps only a prefix.
// Expected instances on today's tree: none (the converters copy element by element).
func c11BulkCopy(p *Program, r *Report, m *vmModel, rule string) {
	n := 0
	for _, fn := range SrcFuncs(m.sp) {
		k := 0
		for _, b := range fn.Blocks {
			for _, in := range b.Instrs {
				c, ok := in.(*ssa.Call)
				if !ok {
					continue
				}
				if o := calleeObj(c); o == nil || !isFuncNamed(o, "reflect", "", "Copy") {
					continue
				}
				n++
				k++
				inst := fmt.Sprintf("%s|reflect.Copy #%d", funcName(fn), k)
				used := false
				for _, ref := range *c.Referrers() {
					if _, isDbg := ref.(*ssa.DebugRef); !isDbg {
						used = true
					}
				}
				if used {
					r.OK(rule, inst, p.Pos(c.Pos()), "the number of copied elements is used")
					continue
				}
				src := c.Call.Args[1]
				if sv := spilledValue(src); sv != nil {
					src = sv
				}
				sameSrc := func(v ssa.Value) bool {
					if sv := spilledValue(v); sv != nil {
						v = sv
					}
					return v == src
				}
				lenOfSrc := func(v ssa.Value) bool {
					lc, ok := v.(*ssa.Call)
					if !ok || lc.Call.IsInvoke() || len(lc.Call.Args) != 1 {
						return false
					}
					if o := calleeObj(lc); o == nil || !isFuncNamed(o, "reflect", "Value", "Len") {
						return false
					}
					return sameSrc(lc.Call.Args[0])
				}
				seen := map[ssa.Value]bool{}
				var sized func(v ssa.Value, d int) bool
				sized = func(v ssa.Value, d int) bool {
					if d > 8 {
						return false
					}
					if seen[v] {
						return true
					}
					seen[v] = true
					if sv := spilledValue(v); sv != nil {
						v = sv
					}
					switch x := v.(type) {
					case *ssa.Phi:
						for _, e := range x.Edges {
							if !sized(e, d+1) {
								return false
							}
						}
						return true
					case *ssa.Call:
						if o := calleeObj(x); o != nil && isFuncNamed(o, "reflect", "", "MakeSlice") && len(x.Call.Args) == 3 {
							return lenOfSrc(x.Call.Args[1])
						}
					case *ssa.UnOp:
						if al, ok := x.X.(*ssa.Alloc); ok && x.Op == token.MUL {
							// a local assigned on several paths: every stored value was made with the source's length
							stores := 0
							for _, ref := range *al.Referrers() {
								if st, ok := ref.(*ssa.Store); ok && st.Addr == ssa.Value(al) {
									stores++
									if !sized(st.Val, d+1) {
										return false
									}
								}
							}
							return stores > 0
						}
					}
					return false
				}
				r.Check(sized(c.Call.Args[0], 0), rule, inst, p.Pos(c.Pos()), "the destination was made with the source's length on every path",
					"reflect.Copy's element count is dropped and the destination is not made with the source's own length on every path: where the destination is shorter (a fixed-length array) the remaining elements are lost silently instead of being reported")
			}
		}
	}
	r.Note(rule+" bulk copies", []string{fmt.Sprintf("%d reflect.Copy call(s) in package vm", n)})
}
