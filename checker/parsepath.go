package main

// c01ParsePath is filled in with the may-panic obligations of the parse path (shared by C01.R6 and C15.R3).
func c01ParsePath(p *Program, r *Report, rule string) {
	checkParsePath(p, r, rule)
}
