package main

import (
	"fmt"
	"go/ast"
	"go/constant"
	"go/token"
	"go/types"
	"sort"
	"strings"

	"golang.org/x/tools/go/ssa"
)

// c01ParsePath is the may-panic enumeration of the parse path (shared by C01.R6 and C15.R3).
func c01ParsePath(p *Program, r *Report, rule string) {
	checkParsePath(p, r, rule)
}

// sameExpr: two SSA values compute the same pure expression (same loads of the same fields of the same base,
// same constants and operators) inside one function that does not store to those fields.
func sameExpr(a, b ssa.Value, depth int) bool {
	if a == b {
		return true
	}
	if depth > 6 {
		return false
	}
	switch x := a.(type) {
	case *ssa.Const:
		y, ok := b.(*ssa.Const)
		return ok && x.Value != nil && y.Value != nil && constant.Compare(x.Value, token.EQL, y.Value)
	case *ssa.BinOp:
		y, ok := b.(*ssa.BinOp)
		return ok && x.Op == y.Op && sameExpr(x.X, y.X, depth+1) && sameExpr(x.Y, y.Y, depth+1)
	case *ssa.UnOp:
		y, ok := b.(*ssa.UnOp)
		if !ok || x.Op != y.Op {
			return false
		}
		fa, ok1 := x.X.(*ssa.FieldAddr)
		fb, ok2 := y.X.(*ssa.FieldAddr)
		if ok1 && ok2 && fa.X == fb.X && fa.Field == fb.Field {
			return !storesField(x.Parent(), fa.Field, fa.X)
		}
		return sameExpr(x.X, y.X, depth+1)
	case *ssa.Call:
		y, ok := b.(*ssa.Call)
		if !ok {
			return false
		}
		bx, ok1 := x.Call.Value.(*ssa.Builtin)
		by, ok2 := y.Call.Value.(*ssa.Builtin)
		if ok1 && ok2 && bx.Name() == "len" && by.Name() == "len" {
			return sameExpr(x.Call.Args[0], y.Call.Args[0], depth+1)
		}
	}
	return false
}

func storesField(fn *ssa.Function, field int, base ssa.Value) bool {
	for _, b := range fn.Blocks {
		for _, in := range b.Instrs {
			if st, ok := in.(*ssa.Store); ok {
				if fa, ok := st.Addr.(*ssa.FieldAddr); ok && fa.X == base && fa.Field == field {
					return true
				}
			}
		}
	}
	return false
}

// lenBound describes what a comparison, on the edge that reaches the use, says about an index relative to len(x).
// upperGuard: is `idx < len(x)` (strictly) implied at block `at` by a dominating test?  For slice bounds `idx <= len(x)`.
func upperGuard(at *ssa.BasicBlock, x ssa.Value, idx ssa.Value, strict bool) (bool, string) {
	for d := at; d != nil; d = d.Idom() {
		id := d.Idom()
		if id == nil {
			break
		}
		iff, ok := id.Instrs[len(id.Instrs)-1].(*ssa.If)
		if !ok {
			continue
		}
		onTrue := edgeOnly(id, 0, d)
		onFalse := edgeOnly(id, 1, d)
		if onTrue == onFalse {
			continue
		}
		cond := iff.Cond
		// inline a boolean helper method:  reachEOF() == (len(src) <= offset)
		if c, ok := cond.(*ssa.Call); ok {
			if callee := staticCallee(c); callee != nil && len(callee.Blocks) == 1 {
				if ret, ok := callee.Blocks[0].Instrs[len(callee.Blocks[0].Instrs)-1].(*ssa.Return); ok && len(ret.Results) == 1 {
					if bo0, ok := ret.Results[0].(*ssa.BinOp); ok {
						// orientation: bring the length to the left (offset >= len(src) is len(src) <= offset)
						bo := bo0
						if _, lenLeft := bo0.X.(*ssa.Call); !lenLeft {
							mirror := map[token.Token]token.Token{token.LSS: token.GTR, token.GTR: token.LSS, token.LEQ: token.GEQ, token.GEQ: token.LEQ, token.EQL: token.EQL, token.NEQ: token.NEQ}
							bo = &ssa.BinOp{Op: mirror[bo0.Op], X: bo0.Y, Y: bo0.X}
						}
						// translate the callee's receiver fields to the caller's: compare structurally by field indices
						if lc, ok := bo.X.(*ssa.Call); ok {
							if bi, ok := lc.Call.Value.(*ssa.Builtin); ok && bi.Name() == "len" {
								_, lf, ok1 := fieldLoad(lc.Call.Args[0])
								_, xf, ok2 := fieldLoad(x)
								_, of, ok3 := fieldLoad(bo.Y)
								_, idf, ok4 := fieldLoad(idx)
								if ok1 && ok2 && ok3 && ok4 && lf == xf && of == idf && len(c.Call.Args) == 1 {
									// receiver identity: the callee is called on the same base the fields are loaded from
									bx, _, _ := fieldLoad(x)
									if c.Call.Args[0] == bx {
										// len <= idx
										if bo.Op == token.LEQ && onFalse {
											return true, "guarded by " + callee.Name() + "() == false (len > index)"
										}
										if bo.Op == token.GTR && onTrue {
											return true, "guarded by " + callee.Name() + "()"
										}
									}
								}
							}
						}
					}
				}
			}
			continue
		}
		bo, ok := cond.(*ssa.BinOp)
		if !ok {
			continue
		}
		isLen := func(v ssa.Value) bool {
			c, ok := v.(*ssa.Call)
			if !ok {
				return false
			}
			bi, ok := c.Call.Value.(*ssa.Builtin)
			return ok && bi.Name() == "len" && (c.Call.Args[0] == x || sameExpr(c.Call.Args[0], x, 0))
		}
		// forms with len on the left
		if isLen(bo.X) {
			// len OP k
			switch {
			case sameExpr(bo.Y, idx, 0):
				// len <= idx false → idx < len ; len > idx true → idx < len ; len < idx false → idx <= len ; len >= idx true → idx <= len
				if (bo.Op == token.LEQ && onFalse) || (bo.Op == token.GTR && onTrue) {
					return true, "dominated by a test that the length exceeds the index"
				}
				if !strict && ((bo.Op == token.LSS && onFalse) || (bo.Op == token.GEQ && onTrue)) {
					return true, "dominated by a test that the length is at least the bound"
				}
			default:
				// constants: len > k (true) / len <= k (false) with idx const <= k ; len < k false / len >= k true with idx < k
				kc, ok1 := bo.Y.(*ssa.Const)
				ic, ok2 := idx.(*ssa.Const)
				if ok1 && ok2 && kc.Value != nil && ic.Value != nil {
					k, i := kc.Int64(), ic.Int64()
					lim := i
					if !strict {
						lim = i - 1
					}
					if ((bo.Op == token.GTR && onTrue) || (bo.Op == token.LEQ && onFalse)) && k >= lim {
						return true, fmt.Sprintf("length tested to exceed %d", k)
					}
					if ((bo.Op == token.GEQ && onTrue) || (bo.Op == token.LSS && onFalse)) && k > lim {
						return true, fmt.Sprintf("length tested to be at least %d", k)
					}
					if bo.Op == token.EQL && onTrue && k > lim {
						return true, fmt.Sprintf("length tested to be %d", k)
					}
				}
			}
		}
		// idx < len (true) / idx >= len (false)
		if isLen(bo.Y) && sameExpr(bo.X, idx, 0) {
			if (bo.Op == token.LSS && onTrue) || (bo.Op == token.GEQ && onFalse) {
				return true, "dominated by index < length"
			}
			if !strict && ((bo.Op == token.LEQ && onTrue) || (bo.Op == token.GTR && onFalse)) {
				return true, "dominated by bound <= length"
			}
		}
	}
	return false, ""
}

// literalLen: x is a slice literal built here with n elements (n > idx).
func literalLen(x ssa.Value) (int64, bool) {
	sl, ok := x.(*ssa.Slice)
	if !ok {
		return 0, false
	}
	al, ok := sl.X.(*ssa.Alloc)
	if !ok {
		return 0, false
	}
	if arr, ok := derefType(al.Type()).Underlying().(*types.Array); ok && sl.Low == nil && sl.High == nil {
		return arr.Len(), true
	}
	return 0, false
}

// parsePathLexer: obligations of the hand-written files of package parser and of package ast.
func parsePathLexer(p *Program, r *Report, rule string) {
	n := 0
	for _, suffix := range []string{"parser", "ast"} {
		sp := p.SSAPkg(suffix)
		if sp == nil {
			continue
		}
		for _, fn := range SrcFuncs(sp) {
			file := p.RealFile(fn.Pos())
			if strings.HasSuffix(file, "parser.go") {
				continue // generated runtime and actions: handled separately
			}
			fname := funcName(fn)
			cnt := map[string]int{}
			mk := func(what string) string {
				cnt[what]++
				if cnt[what] > 1 {
					return fmt.Sprintf("%s|%s #%d", fname, what, cnt[what])
				}
				return fname + "|" + what
			}
			for _, b := range fn.Blocks {
				for _, in := range b.Instrs {
					site := p.Pos(instrPos(in))
					switch x := in.(type) {
					case *ssa.Panic:
						n++
						r.Fail(rule, mk("panic"), site, "explicit panic on the parse path")
					case *ssa.TypeAssert:
						if !x.CommaOk {
							n++
							r.Fail(rule, mk("type assertion"), site, "unchecked type assertion on the parse path")
						}
					case *ssa.IndexAddr:
						n++
						inst := mk("index")
						if _, isArr := derefType(x.X.Type()).Underlying().(*types.Array); isArr {
							if c, ok := x.Index.(*ssa.Const); ok && c.Int64() >= 0 {
								r.OK(rule, inst, site, "constant index into an array")
								continue
							}
						}
						if ln, ok := literalLen(x.X); ok {
							if c, ok := x.Index.(*ssa.Const); ok && c.Int64() >= 0 && c.Int64() < ln {
								r.OK(rule, inst, site, fmt.Sprintf("constant index %d into a literal of length %d", c.Int64(), ln))
								continue
							}
						}
						if ok, why := upperGuard(b, x.X, x.Index, true); ok {
							lowOK, lwhy := lowerBoundOK(p, x.Index)
							r.Check(lowOK, rule, inst, site, why+"; "+lwhy, "index may be negative: "+lwhy)
							continue
						}
						if isRangeIndex(x.Index, x.X) {
							r.OK(rule, inst, site, "range index over the same slice")
							continue
						}
						r.Fail(rule, inst, site, "slice index on the parse path without a dominating bound test on the same expressions (ParseSrc has no recover: an out-of-range index panics into the caller)")
					case *ssa.Index:
						n++
						r.Fail(rule, mk("string index"), site, "string index without bound analysis")
					case *ssa.Slice:
						if _, isArr := derefType(x.X.Type()).Underlying().(*types.Array); isArr && x.Low == nil && x.High == nil {
							continue
						}
						n++
						inst := mk("slice")
						okAll := true
						why := ""
						for _, bnd := range []ssa.Value{x.Low, x.High} {
							if bnd == nil {
								continue
							}
							if c, ok := bnd.(*ssa.Const); ok && c.Int64() == 0 {
								continue
							}
							if ok, w := upperGuard(b, x.X, bnd, false); ok {
								why = w
							} else {
								okAll = false
							}
						}
						r.Check(okAll, rule, inst, site, "slice bounds within the length: "+why, "slice bounds on the parse path are not dominated by a length test")
					}
				}
			}
		}
	}
	r.Floor(rule+"a", n, 8)
}

// lowerBoundOK: the index cannot be negative: constants, and cursor-relative expressions (cursor >= 0 by the scanner's discipline, E6).
func lowerBoundOK(p *Program, idx ssa.Value) (bool, string) {
	switch x := idx.(type) {
	case *ssa.Const:
		return x.Int64() >= 0, "constant"
	case *ssa.UnOp:
		if _, _, ok := fieldLoad(x); ok {
			return true, "the cursor field: only moved by the +1/-1 primitives, and every retreat follows an advance (C15.R1 cursor discipline)"
		}
	case *ssa.BinOp:
		if x.Op == token.ADD {
			a, _ := lowerBoundOK(p, x.X)
			bOK := false
			if prm, ok := x.Y.(*ssa.Parameter); ok {
				// all call sites pass non-negative constants
				bOK = true
				fn := prm.Parent()
				idxp := 0
				for i, q := range fn.Params {
					if q == prm {
						idxp = i
					}
				}
				for _, f2 := range SrcFuncs(fn.Pkg) {
					for _, b := range f2.Blocks {
						for _, in := range b.Instrs {
							if c, ok := in.(ssa.CallInstruction); ok && staticCallee(c) == fn {
								if cst, ok := c.Common().Args[idxp].(*ssa.Const); !ok || cst.Int64() < 0 {
									bOK = false
								}
							}
						}
					}
				}
			} else if c, ok := x.Y.(*ssa.Const); ok {
				bOK = c.Int64() >= 0
			}
			return a && bOK, "cursor plus a non-negative offset"
		}
	case *ssa.Phi:
		// a loop index: every edge is a non-negative constant, the index itself plus a non-negative constant,
		// or a value that is non-negative for one of the reasons above (a loop that counts down is not accepted here)
		for _, e := range x.Edges {
			if bo, ok := e.(*ssa.BinOp); ok && bo.Op == token.ADD && bo.X == ssa.Value(x) {
				if c, ok := bo.Y.(*ssa.Const); ok && c.Int64() >= 0 {
					continue
				}
				return false, "loop index changed by something other than a non-negative constant step"
			}
			if _, isPhi := e.(*ssa.Phi); isPhi {
				return false, "loop index fed by another loop variable"
			}
			if ok, _ := lowerBoundOK(p, e); !ok {
				return false, "loop index with an edge that may be negative"
			}
		}
		return true, "loop index: starts non-negative and only grows"
	}
	return false, "unknown lower bound"
}

// neverNil computes, for every (nonterminal, union field), whether the semantic value can be nil / of which kinds,
// from the assignments of all productions (greatest fixpoint).
type semInfo struct {
	g        *LALR
	nm       *NodeModel
	maybeNil map[string]bool // "nt.field"
}

func buildSemInfo(g *LALR, nm *NodeModel) *semInfo {
	si := &semInfo{g: g, nm: nm, maybeNil: map[string]bool{}}
	info := g.Info
	// collect fields read with yyDollar
	fields := map[string]bool{}
	for _, cc := range g.Clauses {
		ast.Inspect(cc, func(n ast.Node) bool {
			if se, ok := n.(*ast.SelectorExpr); ok {
				if ix, ok := se.X.(*ast.IndexExpr); ok {
					if id, ok := ix.X.(*ast.Ident); ok && id.Name == "yyDollar" {
						fields[se.Sel.Name] = true
					}
				}
			}
			return true
		})
	}
	nonNilExpr := func(e ast.Expr, rule int) (bool, string) {
		e = ast.Unparen(e)
		switch x := e.(type) {
		case *ast.UnaryExpr:
			if x.Op == token.AND {
				return true, ""
			}
		case *ast.CompositeLit:
			return true, ""
		case *ast.CallExpr:
			if id, ok := x.Fun.(*ast.Ident); ok && id.Name == "append" {
				return true, ""
			}
		case *ast.Ident:
			if x.Name == "nil" {
				return false, ""
			}
			// local variable of concrete pointer type assigned from a non-nil source in the same clause
			if t := info.TypeOf(x); t != nil {
				if _, isPtr := t.Underlying().(*types.Pointer); isPtr {
					return true, "" // locals like switchStmt := $1.(*ast.SwitchStmt): the assertion itself is an obligation elsewhere
				}
			}
		case *ast.SelectorExpr:
			if ix, ok := x.X.(*ast.IndexExpr); ok {
				if id, ok := ix.X.(*ast.Ident); ok && id.Name == "yyDollar" {
					if tv := info.Types[ix.Index]; tv.Value != nil {
						k, _ := constant.Int64Val(tv.Value)
						if int(k) >= 1 && int(k) <= len(g.RHS[rule]) {
							sym := g.RHS[rule][k-1]
							if sym < 0 {
								return true, fmt.Sprintf("%d.%s", -sym, x.Sel.Name) // depends on
							}
						}
					}
				}
			}
		}
		return false, ""
	}
	// initial: everything possibly assigned is assumed never-nil; iterate removing
	type dep struct{ key, on string }
	for iter := 0; iter < 20; iter++ {
		changed := false
		for rule := 1; rule < len(g.R1); rule++ {
			nt := g.R1[rule]
			cc := g.Clauses[rule]
			for f := range fields {
				key := fmt.Sprintf("%d.%s", nt, f)
				if si.maybeNil[key] {
					continue
				}
				// top-level unconditional assignment?
				var top []ast.Stmt
				if cc != nil {
					for _, st := range cc.Body {
						if b, ok := st.(*ast.BlockStmt); ok {
							top = append(top, b.List...)
						} else {
							top = append(top, st)
						}
					}
				}
				assigned, anyAssign := false, false
				bad := false
				if cc != nil {
					ast.Inspect(cc, func(n ast.Node) bool {
						as, ok := n.(*ast.AssignStmt)
						if !ok {
							return true
						}
						for i, l := range as.Lhs {
							se, ok := l.(*ast.SelectorExpr)
							if !ok || se.Sel.Name != f {
								continue
							}
							if id, ok := se.X.(*ast.Ident); !ok || id.Name != "yyVAL" {
								continue
							}
							anyAssign = true
							if i < len(as.Rhs) {
								okNN, depends := nonNilExpr(as.Rhs[i], rule)
								if !okNN {
									bad = true
								} else if depends != "" && si.maybeNil[depends] {
									bad = true
								}
							}
						}
						return true
					})
				}
				assigned = assignsOnAllPaths(top, f)
				if !anyAssign || !assigned {
					// default action: $$ = $1 — fine when $1 is a symbol whose same field is never nil
					rhs := g.RHS[rule]
					if len(rhs) == 0 || rhs[0] >= 0 {
						if anyAssign || usesField(g, nt, f) {
							bad = bad || !assigned
						}
					} else if si.maybeNil[fmt.Sprintf("%d.%s", -rhs[0], f)] {
						bad = true
					} else if !producesField(g, -rhs[0], f) && usesField(g, nt, f) {
						bad = true
					}
				}
				if bad && usesField(g, nt, f) {
					si.maybeNil[key] = true
					changed = true
				}
			}
		}
		if !changed {
			break
		}
	}
	return si
}

// usesField: some production of nt assigns yyVAL.field, i.e. the field is the semantic value of nt.
func usesField(g *LALR, nt int, field string) bool { return producesField(g, nt, field) }

func producesField(g *LALR, nt int, field string) bool {
	for rule := 1; rule < len(g.R1); rule++ {
		if g.R1[rule] != nt {
			continue
		}
		cc := g.Clauses[rule]
		if cc == nil {
			continue
		}
		found := false
		ast.Inspect(cc, func(n ast.Node) bool {
			if as, ok := n.(*ast.AssignStmt); ok {
				for _, l := range as.Lhs {
					if se, ok := l.(*ast.SelectorExpr); ok && se.Sel.Name == field {
						if id, ok := se.X.(*ast.Ident); ok && id.Name == "yyVAL" {
							found = true
						}
					}
				}
			}
			return true
		})
		if found {
			return true
		}
	}
	return false
}

// parsePathActions: obligations inside the grammar actions (type assertions, dereferences and method calls on semantic values, list indices).
func parsePathActions(p *Program, r *Report, rule string) {
	g, err := BuildLALR(p)
	if err != nil {
		r.Undecided(rule, "tables", "parser/parser.go", err.Error())
		return
	}
	nm, err := BuildNodeModel(p, g)
	if err != nil {
		r.Undecided(rule, "model", "parser", err.Error())
		return
	}
	si := buildSemInfo(g, nm)
	info := g.Info
	var mn []string
	for k := range si.maybeNil {
		mn = append(mn, k)
	}
	sort.Strings(mn)
	r.Note("semantic_values_that_may_be_nil", mn)
	n := 0
	var rules []int
	for rl := range g.Clauses {
		rules = append(rules, rl)
	}
	sort.Ints(rules)
	for _, rl := range rules {
		cc := g.Clauses[rl]
		if rl <= 0 || rl >= len(g.R1) {
			continue
		}
		rhs := g.RHS[rl]
		rs := fmt.Sprintf("rule %d", rl)
		// yyDollar bounds
		maxK := 0
		ast.Inspect(cc, func(nd ast.Node) bool {
			for _, k := range dollarsIn(info, exprOf(nd)) {
				if k > maxK {
					maxK = k
				}
			}
			return true
		})
		if maxK > 0 {
			n++
			// the action's window: yyDollar = yyS[yypt-N : yypt+1]
			win := -1
			ast.Inspect(cc, func(nd ast.Node) bool {
				if as, ok := nd.(*ast.AssignStmt); ok && len(as.Lhs) == 1 {
					if id, ok := as.Lhs[0].(*ast.Ident); ok && id.Name == "yyDollar" {
						if se, ok := as.Rhs[0].(*ast.SliceExpr); ok {
							if be, ok := se.Low.(*ast.BinaryExpr); ok && be.Op == token.SUB {
								if tv := info.Types[be.Y]; tv.Value != nil {
									k, _ := constant.Int64Val(tv.Value)
									win = int(k)
								}
							}
						}
					}
				}
				return true
			})
			r.Check(win >= maxK && win == len(rhs), rule, rs+"|$n in range", p.Pos(cc.Pos()), fmt.Sprintf("uses $1..$%d of a production with %d symbols (window %d)", maxK, len(rhs), win), fmt.Sprintf("the action refers to $%d but the production has %d symbols (window %d): index out of range on the value stack", maxK, len(rhs), win))
		}
		// type assertions / method calls / field accesses on semantic values
		cnt := 0
		var visit func(nd ast.Node, guardedNonNil map[string]bool)
		visit = func(nd ast.Node, guarded map[string]bool) {
			switch x := nd.(type) {
			case nil:
				return
			case *ast.IfStmt:
				visit(x.Init, guarded)
				visit(x.Cond, guarded)
				g2 := map[string]bool{}
				for k := range guarded {
					g2[k] = true
				}
				// `$k != nil` in the condition guards the body; `$k == nil` guards the else
				var key string
				var op token.Token
				if be, ok := x.Cond.(*ast.BinaryExpr); ok && (be.Op == token.NEQ || be.Op == token.EQL) {
					if id, ok := be.Y.(*ast.Ident); ok && id.Name == "nil" {
						key, op = exprKey(be.X), be.Op
					}
				}
				if key != "" && op == token.NEQ {
					g2[key] = true
				}
				visit(x.Body, g2)
				g3 := map[string]bool{}
				for k := range guarded {
					g3[k] = true
				}
				if key != "" && op == token.EQL {
					g3[key] = true
				}
				visit(x.Else, g3)
				return
			case *ast.TypeAssertExpr:
				if x.Type != nil && !isCommaOkAssert(cc, x) {
					cnt++
					n++
					inst := fmt.Sprintf("%s|assert #%d", rs, cnt)
					ok, why := si.assertOK(rl, x, guarded)
					r.Check(ok, rule, inst, p.Pos(x.Pos()), why, "type assertion on a semantic value that is not guaranteed by the productions of that symbol: "+why)
				}
			case *ast.CallExpr:
				if sel, ok := x.Fun.(*ast.SelectorExpr); ok {
					if k := dollarKey(info, sel.X); k != "" || exprKey(sel.X) == "yyVAL" {
						// method call on a semantic value (interface): nil would panic
						if t := info.TypeOf(sel.X); t != nil && types.IsInterface(t) {
							cnt++
							n++
							inst := fmt.Sprintf("%s|call .%s #%d", rs, sel.Sel.Name, cnt)
							ok, why := si.nonNilValue(rl, sel.X, guarded, cc)
							r.Check(ok, rule, inst, p.Pos(x.Pos()), why, "method call on a semantic value that may be nil: "+why)
						}
					}
				}
			case *ast.IndexExpr:
				// $k[i]: list element
				if k := dollarKey(info, x.X); k != "" {
					if tv := info.Types[x.Index]; tv.Value != nil {
						cnt++
						n++
						idx, _ := constant.Int64Val(tv.Value)
						inst := fmt.Sprintf("%s|%s[%d]", rs, exprKey(x.X), idx)
						ok := lenGuarded(info, cc, x, idx)
						r.Check(ok, rule, inst, p.Pos(x.Pos()), "dominated by a test of the list's length", "list element taken without testing the list's length")
					}
				}
			}
			ast.Inspect(nd, func(c ast.Node) bool {
				if c == nd || c == nil {
					return true
				}
				visit(c, guarded)
				return false
			})
		}
		for _, st := range cc.Body {
			visit(st, map[string]bool{})
		}
		// dereferences of pointer-typed semantic values ($4.TypeData = ..., $1.Kind)
		ast.Inspect(cc, func(nd ast.Node) bool {
			se, ok := nd.(*ast.SelectorExpr)
			if !ok {
				return true
			}
			k := dollarKey(info, se.X)
			if k == "" {
				return true
			}
			t := info.TypeOf(se.X)
			if t == nil {
				return true
			}
			if _, isPtr := t.Underlying().(*types.Pointer); !isPtr {
				return true
			}
			if _, isMethod := info.Selections[se]; isMethod && info.Selections[se].Kind() != types.FieldVal {
				return true
			}
			cnt++
			n++
			inst := fmt.Sprintf("%s|deref %s.%s", rs, exprKey(se.X), se.Sel.Name)
			ok, why := si.nonNilValue(rl, se.X, map[string]bool{}, cc)
			r.Check(ok, rule, inst, p.Pos(se.Pos()), why, "field access through a pointer-valued semantic value that may be nil: "+why)
			return true
		})
	}
	r.Floor(rule+"b", n, 150)
}

func exprOf(n ast.Node) ast.Expr {
	if e, ok := n.(ast.Expr); ok {
		return e
	}
	return &ast.BadExpr{}
}

func exprKey(e ast.Expr) string {
	return types.ExprString(e)
}

// dollarKey: e is yyDollar[k].f → "k.f".
func dollarKey(info *types.Info, e ast.Expr) string {
	se, ok := ast.Unparen(e).(*ast.SelectorExpr)
	if !ok {
		return ""
	}
	ix, ok := se.X.(*ast.IndexExpr)
	if !ok {
		return ""
	}
	id, ok := ix.X.(*ast.Ident)
	if !ok || id.Name != "yyDollar" {
		return ""
	}
	if tv := info.Types[ix.Index]; tv.Value != nil {
		k, _ := constant.Int64Val(tv.Value)
		return fmt.Sprintf("%d.%s", k, se.Sel.Name)
	}
	return ""
}

func isCommaOkAssert(cc *ast.CaseClause, ta *ast.TypeAssertExpr) bool {
	res := false
	ast.Inspect(cc, func(n ast.Node) bool {
		if as, ok := n.(*ast.AssignStmt); ok && len(as.Lhs) == 2 && len(as.Rhs) == 1 && as.Rhs[0] == ast.Expr(ta) {
			res = true
		}
		return true
	})
	return res
}

// assertOK: $k.f.(*ast.T) is safe when every production of the symbol stores exactly kind T, never nil (or a nil test guards it).
func (si *semInfo) assertOK(rule int, ta *ast.TypeAssertExpr, guarded map[string]bool) (bool, string) {
	info := si.g.Info
	inner := ast.Unparen(ta.X)
	// element of a list: $1[0].(ast.Expr)
	if ix, ok := inner.(*ast.IndexExpr); ok {
		if dollarKey(info, ix.X) != "" {
			if types.IsInterface(info.TypeOf(ta.Type)) {
				return true, "list elements are non-nil expression nodes (the list productions append only node values)"
			}
		}
	}
	key := dollarKey(info, inner)
	if key == "" {
		return false, "asserted value is not a semantic value of the production"
	}
	var k int
	var f string
	fmt.Sscanf(strings.Replace(key, ".", " ", 1), "%d %s", &k, &f)
	if k < 1 || k > len(si.g.RHS[rule]) || si.g.RHS[rule][k-1] >= 0 {
		return false, "not a nonterminal"
	}
	sym := -si.g.RHS[rule][k-1]
	want := ""
	if t := info.TypeOf(ta.Type); t != nil {
		want = si.nm.nodeKind(t)
	}
	kinds := si.nm.Kinds(fmt.Sprintf("nt:%d.%s", sym, f))
	if want != "" {
		for _, kd := range kinds {
			if kd != want {
				return false, fmt.Sprintf("symbol %s can carry a %s, asserted %s", si.g.SymName(-sym), kd, want)
			}
		}
	}
	if si.maybeNil[fmt.Sprintf("%d.%s", sym, f)] && !guarded[exprKey(inner)] {
		return false, fmt.Sprintf("symbol %s can carry nil and the assertion is not under a nil test", si.g.SymName(-sym))
	}
	return true, fmt.Sprintf("every production of %s stores a non-nil %v (or the value was tested)", si.g.SymName(-sym), kinds)
}

// nonNilValue: the semantic value expression cannot be nil here.
func (si *semInfo) nonNilValue(rule int, e ast.Expr, guarded map[string]bool, cc *ast.CaseClause) (bool, string) {
	info := si.g.Info
	e = ast.Unparen(e)
	if guarded[exprKey(e)] {
		return true, "under a nil test of the same value"
	}
	if exprKey(e) == "yyVAL" {
		return true, "struct value"
	}
	if se, ok := e.(*ast.SelectorExpr); ok {
		if id, ok := se.X.(*ast.Ident); ok && id.Name == "yyVAL" {
			// assigned a non-nil value earlier in this clause, or default copy of a never-nil $1
			assigned := false
			ast.Inspect(cc, func(n ast.Node) bool {
				if as, ok := n.(*ast.AssignStmt); ok && as.Pos() < e.Pos() {
					for i, l := range as.Lhs {
						if exprKey(l) == exprKey(e) && i < len(as.Rhs) {
							if _, isNil := as.Rhs[i].(*ast.Ident); !isNil || as.Rhs[i].(*ast.Ident).Name != "nil" {
								assigned = true
							}
						}
					}
				}
				return true
			})
			if assigned {
				return true, "assigned a node earlier in the same action"
			}
			rhs := si.g.RHS[rule]
			if len(rhs) > 0 && rhs[0] < 0 && !si.maybeNil[fmt.Sprintf("%d.%s", -rhs[0], se.Sel.Name)] && producesField(si.g, -rhs[0], se.Sel.Name) {
				return true, "default action copies the never-nil value of $1"
			}
			return false, "yyVAL." + se.Sel.Name + " may still be nil here"
		}
	}
	key := dollarKey(info, e)
	if key == "" {
		// element of list, local variables …
		if ix, ok := e.(*ast.IndexExpr); ok && dollarKey(info, ix.X) != "" {
			return true, "list elements are non-nil nodes"
		}
		return false, "not a semantic value"
	}
	var k int
	var f string
	fmt.Sscanf(strings.Replace(key, ".", " ", 1), "%d %s", &k, &f)
	if k < 1 || k > len(si.g.RHS[rule]) {
		return false, "out of range"
	}
	sym := si.g.RHS[rule][k-1]
	if sym > 0 {
		return true, "token value (struct)"
	}
	if si.maybeNil[fmt.Sprintf("%d.%s", -sym, f)] {
		return false, fmt.Sprintf("symbol %s can carry nil", si.g.SymName(sym))
	}
	return true, fmt.Sprintf("every production of %s stores a non-nil value", si.g.SymName(sym))
}

// lenGuarded: the index expression $k[idx] lies under a branch that excludes len($k) <= idx.
func lenGuarded(info *types.Info, cc *ast.CaseClause, ix *ast.IndexExpr, idx int64) bool {
	target := exprKey(ix.X)
	ok := false
	var walk func(n ast.Node, minLen int64)
	walk = func(n ast.Node, minLen int64) {
		if n == nil {
			return
		}
		if n == ast.Node(ix) {
			if minLen > idx {
				ok = true
			}
			return
		}
		if ifs, isIf := n.(*ast.IfStmt); isIf {
			walk(ifs.Init, minLen)
			walk(ifs.Cond, minLen)
			tMin, fMin := minLen, minLen
			if be, isBE := ifs.Cond.(*ast.BinaryExpr); isBE {
				if c, isCall := be.X.(*ast.CallExpr); isCall {
					if id, isID := c.Fun.(*ast.Ident); isID && id.Name == "len" && len(c.Args) == 1 && exprKey(c.Args[0]) == target {
						if tv := info.Types[be.Y]; tv.Value != nil {
							k, _ := constant.Int64Val(tv.Value)
							switch be.Op {
							case token.LSS: // len < k : else len >= k
								if k > fMin {
									fMin = k
								}
							case token.EQL:
								if k > tMin {
									tMin = k
								}
							case token.GTR:
								if k+1 > tMin {
									tMin = k + 1
								}
							case token.GEQ:
								if k > tMin {
									tMin = k
								}
							case token.LEQ:
								if k+1 > fMin {
									fMin = k + 1
								}
							}
						}
					}
				}
				// conjunction: len($1) == 2 && len($3) == 1
				if be.Op == token.LAND {
					for _, side := range []ast.Expr{be.X, be.Y} {
						if b2, ok2 := side.(*ast.BinaryExpr); ok2 && b2.Op == token.EQL {
							if c, isCall := b2.X.(*ast.CallExpr); isCall {
								if id, isID := c.Fun.(*ast.Ident); isID && id.Name == "len" && exprKey(c.Args[0]) == target {
									if tv := info.Types[b2.Y]; tv.Value != nil {
										k, _ := constant.Int64Val(tv.Value)
										if k > tMin {
											tMin = k
										}
									}
								}
							}
						}
					}
				}
			}
			walk(ifs.Body, tMin)
			walk(ifs.Else, fMin)
			return
		}
		ast.Inspect(n, func(c ast.Node) bool {
			if c == n || c == nil {
				return true
			}
			walk(c, minLen)
			return false
		})
	}
	for _, st := range cc.Body {
		walk(st, 0)
	}
	return ok
}

// assignsOnAllPaths: the statement list assigns yyVAL.<field> on every path through it.
func assignsOnAllPaths(stmts []ast.Stmt, field string) bool {
	for _, st := range stmts {
		switch x := st.(type) {
		case *ast.AssignStmt:
			for _, l := range x.Lhs {
				if se, ok := l.(*ast.SelectorExpr); ok && se.Sel.Name == field {
					if id, ok := se.X.(*ast.Ident); ok && id.Name == "yyVAL" {
						return true
					}
				}
			}
		case *ast.BlockStmt:
			if assignsOnAllPaths(x.List, field) {
				return true
			}
		case *ast.IfStmt:
			if x.Else == nil {
				continue
			}
			thenOK := assignsOnAllPaths(x.Body.List, field)
			elseOK := false
			switch e := x.Else.(type) {
			case *ast.BlockStmt:
				elseOK = assignsOnAllPaths(e.List, field)
			case *ast.IfStmt:
				elseOK = assignsOnAllPaths([]ast.Stmt{e}, field)
			}
			if thenOK && elseOK {
				return true
			}
		}
	}
	return false
}
