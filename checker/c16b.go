package main

import (
	"fmt"
	"go/token"
	"go/types"
	"sort"

	"golang.org/x/tools/go/ssa"
)

// selectResultVals: the values that carry result #idx of a reflect.Select call, through spilled locals, phis and negation.
func selectResultVals(c *ssa.Call, idx int) map[ssa.Value]bool {
	vals := map[ssa.Value]bool{}
	var add func(v ssa.Value, depth int)
	add = func(v ssa.Value, depth int) {
		if vals[v] || depth > 6 {
			return
		}
		vals[v] = true
		for _, ref := range *v.Referrers() {
			switch x := ref.(type) {
			case *ssa.Store:
				if al, ok := x.Addr.(*ssa.Alloc); ok && x.Val == v {
					for _, r2 := range *al.Referrers() {
						if u, ok := r2.(*ssa.UnOp); ok {
							add(u, depth+1)
						}
					}
				}
			case *ssa.Phi:
				add(x, depth+1)
			case *ssa.UnOp:
				if x.Op == token.NOT {
					add(x, depth+1)
				}
			}
		}
	}
	for _, ref := range *c.Referrers() {
		if ex, ok := ref.(*ssa.Extract); ok && ex.Index == idx {
			add(ex, 0)
		}
	}
	return vals
}

// c16Extra: R5 a loop over a channel ends only because the channel was closed, the run was interrupted, or the body said so;
// R6 what a goroutine started by a go statement captures is storage of that one call.
func c16Extra(p *Program, r *Report) {
	r.Explain("R5 every edge that leaves the receive loop of `for v in ch` is decided by the receive itself (closed channel, interrupted run) or by the error cell after the body ran (break / return / error); a loop exit decided by the received value would drop messages. " +
		"R7 a call handler that starts function variants through func-typed locals on its go path covers every variant its ordinary path calls. " +
		"R6 the variables captured by the function literal a go statement starts are parameters or storage allocated by this call (locals, make, slices of a local array): memory obtained from elsewhere (a pool, a package variable, a field) can be reused by the caller before the goroutine reads its arguments.")
	m, err := buildVMModel(p)
	if err != nil {
		return
	}
	c16Blocking(p, r, m)
	c16UnwrapBeforeChanTest(p, r, m)
	r.Explain("R10 make(chan T, n) builds the channel with the node's own size operand as its buffer, without one it is unbuffered, and a size is refused only when it is negative (0 is the unbuffered channel, as in Go).")
	c10MakeRule(p, r, m, buildTypeSummaries(m), "C16.R10", true)
	// R5
	n := 0
	for _, s := range m.selectSites() {
		if s.dir != 2 {
			continue
		}
		fn := s.fn
		base := m.baseOf(fn)
		for _, lp := range loopsOf(fn) {
			if !lp.Body[s.call.Block()] {
				continue
			}
			chosen, ok := selectResultVals(s.call, 0), selectResultVals(s.call, 2)
			k := 0
			for _, b := range fn.Blocks {
				if !lp.Body[b] {
					continue
				}
				iff, isIf := b.Instrs[len(b.Instrs)-1].(*ssa.If)
				if !isIf {
					continue
				}
				leaves := false
				for _, sc := range b.Succs {
					if !lp.Body[sc] {
						leaves = true
					}
				}
				if !leaves {
					continue
				}
				n++
				k++
				cond := iff.Cond
				if u, isNot := cond.(*ssa.UnOp); isNot && u.Op == token.NOT {
					cond = u.X
				}
				why := ""
				switch x := cond.(type) {
				case *ssa.BinOp:
					switch {
					case chosen[x.X] || chosen[x.Y]:
						why = "interrupted (which case was chosen)"
					case base != nil && (m.cellLoad(x.X, base) == "err" || m.cellLoad(x.Y, base) == "err"):
						why = "the error cell after the body"
					case isErrorType(x.X.Type()):
						why = "an error value"
					}
				default:
					if ok[cond] || ok[iff.Cond] {
						why = "closed channel (ok result of the receive)"
					}
				}
				r.Check(why != "", "C16.R5", fmt.Sprintf("%s|loop exit #%d", funcName(fn), k), p.Pos(instrPos(iff)), "decided by: "+why,
					"the receive loop can end on a test that is neither the receive's own outcome nor the error cell after the body (a property of the received message, for instance): the loop stops while the channel is open and messages are left undelivered")
			}
		}
	}
	r.Floor("C16.R5", n, 3)

	// R6
	n6 := 0
	for _, fn := range m.fns {
		for _, b := range fn.Blocks {
			for _, in := range b.Instrs {
				var mc *ssa.MakeClosure
				switch x := in.(type) {
				case *ssa.Go:
					mc, _ = x.Call.Value.(*ssa.MakeClosure)
				case *ssa.Call:
					// a helper of vm whose parameter is run on a new goroutine
					if callee := staticCallee(x); callee != nil && callee.Pkg == m.sp && startsGoroutineWithParam(callee) {
						for _, a := range x.Call.Args {
							if c, ok := a.(*ssa.MakeClosure); ok {
								mc = c
							}
						}
					}
				}
				if mc == nil {
					continue
				}
				for i, bnd := range mc.Bindings {
					name := mc.Fn.(*ssa.Function).FreeVars[i].Name()
					why := foreignStorage(bnd, 0)
					if why == "" {
						// the run record of the starter: the goroutine may read what never changes (options, context), but a record cell
						// written or an interpreter function run on that record there is shared with the caller, which goes on using it
						if use := recordUsedByGoroutine(m, mc.Fn.(*ssa.Function), i, bnd); use != "" {
							why = "the run record of the caller, and the goroutine " + use
						}
					}
					n6++
					r.Check(why == "", "C16.R6", fmt.Sprintf("%s|goroutine captures %s", funcName(fn), name), p.Pos(instrPos(in)), "storage of this call",
						"the goroutine captures "+name+", which is "+why+": the caller can reuse it before the goroutine has read its arguments")
				}
			}
		}
	}
	r.Floor("C16.R6", n6, 4)

	// R7: the go path and the ordinary path of a call handler dispatch over the same set of function variants
	n7 := 0
	for _, fn := range m.fns {
		direct := map[string]bool{}
		viaGo := map[string]bool{}
		dynSig := func(c ssa.CallInstruction) string {
			if c.Common().IsInvoke() || staticCallee(c) != nil {
				return ""
			}
			if _, isBuiltin := c.Common().Value.(*ssa.Builtin); isBuiltin {
				return ""
			}
			if _, isClosure := c.Common().Value.(*ssa.MakeClosure); isClosure {
				return ""
			}
			if sg, ok := c.Common().Value.Type().Underlying().(*types.Signature); ok {
				return sg.String()
			}
			return ""
		}
		for _, b := range fn.Blocks {
			for _, in := range b.Instrs {
				x, ok := in.(*ssa.Call)
				if !ok {
					continue
				}
				if sg := dynSig(x); sg != "" {
					direct[sg] = true
				}
				if callee := staticCallee(x); callee != nil && callee.Pkg == m.sp && startsGoroutineWithParam(callee) {
					for _, a := range x.Call.Args {
						mc, ok := a.(*ssa.MakeClosure)
						if !ok {
							continue
						}
						for _, cb := range mc.Fn.(*ssa.Function).Blocks {
							for _, cin := range cb.Instrs {
								if cc, ok := cin.(ssa.CallInstruction); ok {
									if sg := dynSig(cc); sg != "" {
										viaGo[sg] = true
									}
								}
							}
						}
					}
				}
			}
		}
		if len(direct) == 0 || len(viaGo) == 0 {
			continue
		}
		n7++
		var missing []string
		for sg := range direct {
			if !viaGo[sg] {
				missing = append(missing, sg)
			}
		}
		sort.Strings(missing)
		r.Check(len(missing) == 0, "C16.R7", funcName(fn)+"|go path covers every variant", p.Pos(fn.Pos()), fmt.Sprintf("%d function variants are started by go exactly as they are called directly", len(direct)),
			fmt.Sprintf("the ordinary call path calls functions of type %v but the go path has no branch for that type: `go f(...)` of such a function evaluates its arguments and then starts nothing", missing))
	}
	r.Floor("C16.R7", n7, 1)
}

// calledLocal: v is a load of a func-typed local variable kept in memory.
func calledLocal(v ssa.Value) *ssa.Alloc {
	u, ok := v.(*ssa.UnOp)
	if !ok || u.Op != token.MUL {
		return nil
	}
	al, _ := u.X.(*ssa.Alloc)
	return al
}

// startsGoroutineWithParam: fn runs one of its func-typed parameters on a new goroutine.
func startsGoroutineWithParam(fn *ssa.Function) bool {
	for _, b := range fn.Blocks {
		for _, in := range b.Instrs {
			g, ok := in.(*ssa.Go)
			if !ok {
				continue
			}
			if mc, ok := g.Call.Value.(*ssa.MakeClosure); ok {
				for _, bnd := range mc.Bindings {
					for _, par := range fn.Params {
						if bnd == ssa.Value(par) || isSpillOf(bnd, par) {
							return true
						}
					}
				}
			}
			for _, par := range fn.Params {
				if g.Call.Value == ssa.Value(par) {
					return true
				}
			}
		}
	}
	return false
}

func isSpillOf(addr ssa.Value, par *ssa.Parameter) bool {
	al, ok := addr.(*ssa.Alloc)
	if !ok {
		return false
	}
	for _, ref := range *al.Referrers() {
		if st, ok := ref.(*ssa.Store); ok && st.Addr == ssa.Value(al) && st.Val == ssa.Value(par) {
			return true
		}
	}
	return false
}

// foreignStorage: "" when the captured variable holds parameters or memory allocated by this call; otherwise where it came from.
// recordUsedByGoroutine: free variable i of the goroutine body holds the caller's run record (not one allocated for the
// goroutine) and the body writes one of its cells, reads a cell an evaluation step changes, or runs an interpreter function
// on it. "" when the record is not captured or only its options / context are read.
func recordUsedByGoroutine(m *vmModel, body *ssa.Function, i int, bnd ssa.Value) string {
	isRec := func(t types.Type) bool {
		pt, ok := t.(*types.Pointer)
		return ok && pt.Elem() == types.Type(m.riT)
	}
	fv := body.FreeVars[i]
	var recs []ssa.Value // values of the body that hold the captured record
	switch {
	case isRec(bnd.Type()):
		if _, fresh := bnd.(*ssa.Alloc); fresh {
			return "" // a record made for the goroutine
		}
		recs = append(recs, fv)
	default:
		// a variable of the starter captured by reference (the receiver spilled because a closure uses it)
		pt, ok := bnd.Type().(*types.Pointer)
		if !ok || !isRec(pt.Elem()) {
			return ""
		}
		al, ok := bnd.(*ssa.Alloc)
		if !ok {
			return ""
		}
		for _, ref := range *al.Referrers() {
			if st, ok := ref.(*ssa.Store); ok && st.Addr == ssa.Value(al) {
				if _, fresh := st.Val.(*ssa.Alloc); fresh {
					return ""
				}
			}
		}
		if fv.Referrers() != nil {
			for _, ref := range *fv.Referrers() {
				if u, ok := ref.(*ssa.UnOp); ok && u.Op == token.MUL {
					recs = append(recs, u)
				}
			}
		}
	}
	for _, rec := range recs {
		if rec.Referrers() == nil {
			continue
		}
		for _, ref := range *rec.Referrers() {
			switch x := ref.(type) {
			case *ssa.FieldAddr:
				fname := fieldOfAddr(x).Name()
				for _, r2 := range *x.Referrers() {
					if st, ok := r2.(*ssa.Store); ok && st.Addr == ssa.Value(x) {
						return "stores to its field " + fname
					}
				}
				if c := m.cell[x.Field]; c == "rv" || c == "err" || c == "env" || c == "expr" || c == "stmt" || c == "operator" || c == "defers" {
					return "reads its " + c + " cell, which the caller keeps changing"
				}
			case ssa.CallInstruction:
				if callee := staticCallee(x); callee != nil && callee.Pkg == m.sp {
					return "runs " + funcName(callee) + " on it"
				}
			}
		}
	}
	return ""
}

func foreignStorage(v ssa.Value, depth int) string {
	if depth > 8 {
		return ""
	}
	switch x := v.(type) {
	case *ssa.Alloc:
		// a captured local: look at what is stored into it
		for _, ref := range *x.Referrers() {
			if st, ok := ref.(*ssa.Store); ok && st.Addr == ssa.Value(x) {
				if why := foreignStorage(st.Val, depth+1); why != "" {
					return why
				}
			}
		}
		return ""
	case *ssa.Slice:
		return foreignStorage(x.X, depth+1)
	case *ssa.Phi:
		for _, e := range x.Edges {
			if why := foreignStorage(e, depth+1); why != "" {
				return why
			}
		}
		return ""
	case *ssa.Call:
		if b, ok := x.Call.Value.(*ssa.Builtin); ok && b.Name() == "append" {
			return foreignStorage(x.Call.Args[0], depth+1)
		}
		return ""
	case *ssa.TypeAssert:
		// memory handed out by something else (sync.Pool.Get().(*[N]T) ...): only pointers and slices are storage
		if isStorageType(x.AssertedType) {
			return "memory obtained from " + describeSource(x.X)
		}
		return ""
	case *ssa.UnOp:
		if x.Op == token.MUL {
			if g, ok := x.X.(*ssa.Global); ok && isStorageType(x.Type()) {
				return "the package variable " + g.Name()
			}
			if _, ok := x.X.(*ssa.Alloc); ok {
				return foreignStorage(x.X, depth+1)
			}
		}
		return ""
	}
	return ""
}

func isStorageType(t interface{ String() string }) bool {
	s := t.String()
	return len(s) > 0 && (s[0] == '*' || (len(s) > 1 && s[:2] == "[]"))
}

func describeSource(v ssa.Value) string {
	if c, ok := v.(*ssa.Call); ok {
		if o := calleeObj(c); o != nil {
			if o.Pkg() != nil {
				return o.Pkg().Name() + "." + o.Name()
			}
			return o.Name()
		}
	}
	return "another owner"
}

// c16Blocking (R8): every channel operation package vm performs on a script channel waits for its partner: there is no
// TryRecv/TrySend and no reflect.Select with a default case. A non-blocking receive that finds nothing ready reports ok == false,
// which the handlers (rightly, for a blocking receive) take to mean "closed and drained".
func c16Blocking(p *Program, r *Report, m *vmModel) {
	r.Explain("R8 every channel operation of package vm waits for its partner: no TryRecv/TrySend, no reflect.Select case with SelectDefault.")
	n := 0
	for _, fn := range SrcFuncs(m.sp) {
		k := 0
		for _, b := range fn.Blocks {
			for _, in := range b.Instrs {
				c, ok := in.(*ssa.Call)
				if !ok {
					continue
				}
				o := calleeObj(c)
				if o == nil || o.Pkg() == nil || o.Pkg().Path() != "reflect" {
					continue
				}
				name := o.Name()
				isMethod := o.Type().(*types.Signature).Recv() != nil
				switch {
				case isMethod && (name == "Recv" || name == "Send" || name == "TryRecv" || name == "TrySend"):
					k++
					n++
					r.Check(name == "Recv" || name == "Send", "C16.R8", fmt.Sprintf("%s|channel operation #%d waits", funcName(fn), k), p.Pos(c.Pos()), "blocking "+name,
						"non-blocking "+name+": when no partner is ready it reports ok == false, which the handler reads as a closed channel: the receive yields nothing (or the loop ends) although the channel is open, and the message sent later is never delivered to this receiver")
				case !isMethod && name == "Select":
					k++
					n++
					def := false
					// a case whose Dir is SelectDefault (3)
					ast := 0
					_ = ast
					for _, b2 := range fn.Blocks {
						for _, in2 := range b2.Instrs {
							st, ok := in2.(*ssa.Store)
							if !ok {
								continue
							}
							fa, ok := st.Addr.(*ssa.FieldAddr)
							if !ok {
								continue
							}
							if pt, ok := fa.X.Type().Underlying().(*types.Pointer); ok && pt.Elem().String() == "reflect.SelectCase" {
								if k2, ok := st.Val.(*ssa.Const); ok && k2.Value != nil && st.Val.Type().String() == "reflect.SelectDir" && k2.Int64() == 3 {
									def = true
								}
							}
						}
					}
					r.Check(!def, "C16.R8", fmt.Sprintf("%s|channel operation #%d waits", funcName(fn), k), p.Pos(c.Pos()), "reflect.Select without a default case",
						"a select case with Dir SelectDefault makes the operation non-blocking: 'nothing ready' is then taken for 'closed'")
				}
			}
		}
	}
	r.Floor("C16.R8", n, 4)
}

// c16UnwrapBeforeChanTest (R9): a handler that asks whether its operand is a channel does so after the unwrap idiom: every path
// from the evaluation of the operand to the `Kind() == Chan` test passes the test for an interface wrapper. A channel read from
// a list, a map or a struct field arrives wrapped; asked first, the channel test fails for it ("type cannot be chan"), the
// channel is not closed / received from, and a `for ... in` over it never ends.
func c16UnwrapBeforeChanTest(p *Program, r *Report, m *vmModel) {
	n := 0
	for _, fn := range m.funcsOnRecord() {
		base := m.baseOf(fn)
		fromRv := func(v ssa.Value) bool {
			if sv := spilledValue(v); sv != nil {
				v = sv
			}
			u, ok := v.(*ssa.UnOp)
			return ok && m.cellAddr(u.X, base) == "rv"
		}
		isKindTest := func(in ssa.Instruction, K int64) bool {
			bo, ok := in.(*ssa.BinOp)
			if !ok || (bo.Op != token.EQL && bo.Op != token.NEQ) {
				return false
			}
			kc, ok := bo.X.(*ssa.Call)
			if !ok || reflectMethod(kc) != "Kind" || !fromRv(kc.Call.Args[0]) {
				return false
			}
			k, ok := bo.Y.(*ssa.Const)
			return ok && k.Int64() == K
		}
		k := 0
		for _, b := range fn.Blocks {
			for _, in := range b.Instrs {
				if !isKindTest(in, 18) {
					continue
				}
				k++
				n++
				// evaluation events of this handler
				bad := ""
				for _, eb := range fn.Blocks {
					for _, ein := range eb.Instrs {
						c, ok := ein.(*ssa.Call)
						if !ok || m.evalRole(c, base) != "expr" {
							continue
						}
						if !(eb == b && instrIndex(c) < instrIndex(in)) && !reachable(eb, nil)[b] {
							continue
						}
						// from the event to the channel test without passing an interface-kind test of the value
						blocked := func(x *ssa.BasicBlock) bool {
							if x == eb {
								return false
							}
							for _, xin := range x.Instrs {
								if isKindTest(xin, 20) {
									return true
								}
							}
							return false
						}
						hasIn := func(x *ssa.BasicBlock, from int) bool {
							for i := from; i < len(x.Instrs); i++ {
								if isKindTest(x.Instrs[i], 20) {
									return true
								}
							}
							return false
						}
						if hasIn(eb, instrIndex(c)) {
							continue
						}
						if eb == b || reachable(eb, blocked)[b] {
							// the channel test itself may share a block with the interface test placed before it
							shared := false
							for i := 0; i < instrIndex(in); i++ {
								if isKindTest(b.Instrs[i], 20) {
									shared = true
								}
							}
							if !shared {
								bad = "the channel test can be reached from the evaluation at " + p.Pos(c.Pos()) + " without the test for an interface wrapper"
							}
						}
					}
				}
				r.Check(bad == "", "C16.R9", fmt.Sprintf("%s|channel test #%d after the unwrap", funcName(fn), k), p.Pos(instrPos(in)), "every path from the operand's evaluation passes the interface test first",
					bad+": a channel read from a container is still wrapped there, so it is refused as 'not a channel' (it is not closed, and the loops ranging over it never end)")
			}
		}
	}
	r.Floor("C16.R9", n, 1)
}
