package main

import (
	"fmt"

	"golang.org/x/tools/go/ssa"
)

// leftValueFixedBeforeRight (C07.R8 = C06.R11 = C20.R5): in a handler that evaluates two operands of a node one after the other
// and combines them (the binary, comparison, add and multiply operators), the first operand is taken out of its interface
// before the second operand is evaluated. An operand read from a list is the list's slot itself (an addressable interface
// value); Elem() is what copies its content out. Unwrapped only after the second operand ran, a second operand that assigns to
// that slot changes the first operand after it was evaluated: `a[0] + step()` computes with the new content of a[0], while the
// same expression over a variable does not - evaluation is no longer left to right, and the result depends on where the
// operand came from.
func leftValueFixedBeforeRight(p *Program, r *Report, m *vmModel, va *evalAnalysis, rule string) {
	n := 0
	for _, kind := range []string{"BinaryOperator", "ComparisonOperator", "AddOperator", "MultiplyOperator"} {
		h := m.handlers["op"][kind]
		if h == nil {
			continue
		}
		// the two evaluation events, in source order of their operands
		var evs []*evalEvent
		for _, e := range va.events[h] {
			if e.role == "expr" && len(e.operands) == 1 {
				evs = append(evs, e)
			}
		}
		if len(evs) < 2 {
			continue
		}
		first, second := evs[0], evs[1]
		if !instrDominates(first.call, second.call) {
			if instrDominates(second.call, first.call) {
				first, second = second, first
			} else {
				continue
			}
		}
		ff, _, _ := fieldOfPath(first.operands[0])
		after := reachable(second.call.Block(), nil)
		bad := ""
		for _, b := range h.Blocks {
			for _, in := range b.Instrs {
				c, ok := in.(*ssa.Call)
				if !ok || reflectMethod(c) != "Elem" {
					continue
				}
				if operandField(m, va, h, c.Call.Args[0], 0) != ff {
					continue
				}
				// an unwrapping of the first operand that can run after the second evaluation
				late := (b == second.call.Block() && instrIndex(c) > instrIndex(second.call)) || (b != second.call.Block() && after[b])
				if late {
					bad = p.Pos(c.Pos())
				}
			}
		}
		n++
		r.Check(bad == "", rule, fmt.Sprintf("%s|first operand taken out of its interface before the second is evaluated", kind), p.Pos(first.call.Pos()),
			"every Elem() of the first operand precedes the evaluation of the second",
			"the first operand is taken out of its interface at "+bad+", after the second operand was evaluated: an operand read from a list slot is that slot, and a second operand that assigns to it changes the first after the fact (`a[0] + step()` differs from the same expression over a variable)")
	}
	// no instance floor: a handler that evaluates its operands through a helper of its own has no two evaluation events to
	// order here (the helper takes each operand out of its interface right after evaluating it, or C20.R1 reports it)
	r.Note(rule+" handlers with two operand evaluations of their own", n)
	if n == 0 {
		r.OK(rule, "operator handlers|no handler evaluates both operands itself", "vm", "the operator handlers evaluate their operands through helpers: nothing to order in the handlers")
	}
}
