package main

import (
	"go/constant"
	"go/token"
	"go/types"
	"sort"
	"strings"

	"golang.org/x/tools/go/ssa"
)

// errBits is the abstract value of the err cell / of an error-typed SSA value.
type errBits uint32

const (
	eNil   errBits = 1 << iota // the nil error
	eOther                     // some ordinary (non-sentinel) error
	eEntry                     // whatever the cell held on entry (summaries only)
	eSent0                     // first sentinel; sentinel i is eSent0<<i
)

type errSummary struct {
	preserve bool
	gen      errBits
	// for functions whose first result is a boolean constant on every return: the summary per returned constant
	hasBool    bool
	boolIdx    int // which result is the boolean
	tPre, fPre bool
	tGen, fGen errBits
}

// errAnalysis is analysis A of E2: the abstract contents of the err cell at every program point of package vm.
type errAnalysis struct {
	clause  map[string]errSummary
	va      *evalAnalysis
	m       *vmModel
	sum     map[*ssa.Function]errSummary
	entry   map[*ssa.Function]errBits
	before  map[*ssa.Function]map[ssa.Instruction]*errState
	sentBit map[*ssa.Global]errBits
	allSent errBits
	boxed   errBits // what an error carried in a reflect.Value (result of a VM function) can be
}

func (a *errAnalysis) bitName(b errBits) string {
	var parts []string
	if b&eNil != 0 {
		parts = append(parts, "nil")
	}
	for g, bit := range a.sentBit {
		if b&bit != 0 {
			parts = append(parts, g.Name())
		}
	}
	if b&eOther != 0 {
		parts = append(parts, "error")
	}
	if b&eEntry != 0 {
		parts = append(parts, "entry-value")
	}
	sort.Strings(parts)
	return "{" + strings.Join(parts, ",") + "}"
}

func (a *errAnalysis) sentinel(name string) errBits {
	for g, b := range a.sentBit {
		if g.Name() == name {
			return b
		}
	}
	return 0
}

type errState struct {
	cell errBits
	ref  map[ssa.Value]errBits
	pre  map[ssa.Value]errBits // cell value just before a call with a boolean-sensitive summary
}

type errFlow struct {
	a    *errAnalysis
	fn   *ssa.Function
	base ssa.Value
	ent  errBits
}

func (f *errFlow) Entry() *errState {
	return &errState{cell: f.ent, ref: map[ssa.Value]errBits{}, pre: map[ssa.Value]errBits{}}
}
func (f *errFlow) Copy(s *errState) *errState {
	o := &errState{cell: s.cell, ref: make(map[ssa.Value]errBits, len(s.ref)), pre: make(map[ssa.Value]errBits, len(s.pre))}
	for k, v := range s.ref {
		o.ref[k] = v
	}
	for k, v := range s.pre {
		o.pre[k] = v
	}
	return o
}
func (f *errFlow) Join(x, y *errState) (*errState, bool) {
	changed := false
	if x.cell|y.cell != x.cell {
		x.cell |= y.cell
		changed = true
	}
	for k, v := range x.ref {
		w, ok := y.ref[k]
		if !ok {
			delete(x.ref, k)
			changed = true
		} else if v|w != v {
			x.ref[k] = v | w
			changed = true
		}
	}
	return x, changed
}

func nonEmptyString(v ssa.Value) bool {
	switch x := v.(type) {
	case *ssa.Const:
		return x.Value != nil && x.Value.Kind() == constant.String && constant.StringVal(x.Value) != ""
	case *ssa.BinOp:
		if x.Op == token.ADD {
			return nonEmptyString(x.X) || nonEmptyString(x.Y)
		}
	case *ssa.Call:
		if o := calleeObj(x); o != nil && o.Pkg() != nil && o.Pkg().Path() == "fmt" && o.Name() == "Sprintf" && len(x.Call.Args) > 0 {
			return nonEmptyString(x.Call.Args[0])
		}
	}
	return false
}

func isErrorType(t types.Type) bool {
	return types.Identical(t, types.Universe.Lookup("error").Type())
}

// abs evaluates an error-typed SSA value.
func (f *errFlow) abs(v ssa.Value, s *errState, depth int) errBits {
	all := eNil | eOther | f.a.allSent
	r, has := s.ref[v]
	res := all
	if depth > 8 {
		return all
	}
	switch x := v.(type) {
	case *ssa.Const:
		if x.IsNil() {
			res = eNil
		}
	case *ssa.UnOp:
		if g, ok := x.X.(*ssa.Global); ok {
			if b, ok := f.a.sentBit[g]; ok {
				res = b
			} else {
				res = eOther
			}
		} else if f.a.m.cellAddr(x.X, f.base) == "err" {
			res = s.cell
		} else {
			res = eNil | eOther
		}
	case *ssa.Phi:
		res = 0
		for _, e := range x.Edges {
			res |= f.abs(e, s, depth+1)
		}
	case *ssa.MakeInterface:
		if _, ok := x.X.Type().Underlying().(*types.Pointer); ok {
			if al, ok := x.X.(*ssa.Alloc); ok && al != nil {
				res = eOther
			} else {
				res = eNil | eOther
			}
		} else {
			res = eOther
		}
	case *ssa.Call:
		res = eNil | eOther
		if callee := staticCallee(x); callee != nil && callee.Pkg == f.a.m.sp {
			switch {
			case len(x.Call.Args) == 2 && isErrorType(x.Call.Args[1].Type()) && isErrorType(callee.Signature.Results().At(0).Type()):
				// newError(pos, err): nil iff err is nil
				in := f.abs(x.Call.Args[1], s, depth+1)
				res = 0
				if in&eNil != 0 {
					res |= eNil
				}
				if in&^eNil != 0 {
					res |= eOther
				}
			case len(x.Call.Args) == 2 && types.Identical(x.Call.Args[1].Type(), types.Typ[types.String]):
				// newStringError(pos, msg): nil iff msg is empty
				if nonEmptyString(x.Call.Args[1]) {
					res = eOther
				}
			}
		} else if o := calleeObj(x); o != nil && o.Pkg() != nil {
			if (o.Pkg().Path() == "fmt" && o.Name() == "Errorf") || (o.Pkg().Path() == "errors" && o.Name() == "New") {
				res = eOther
			}
		}
	case *ssa.TypeAssert:
		res = eNil | eOther
		if boxedError(x) {
			// an error carried in a reflect.Value (second result of a VM function): whatever the package boxes
			res = f.a.boxed
		}
	case *ssa.Extract:
		res = eNil | eOther
		if c, ok := x.Tuple.(*ssa.Call); ok {
			if callee := staticCallee(c); callee != nil && callee.Pkg == f.a.m.sp && returnsBoxedError(callee) {
				res = f.a.boxed
			}
		}
		if ta, ok := x.Tuple.(*ssa.TypeAssert); ok && boxedError(ta) {
			res = f.a.boxed
		}
	case *ssa.Parameter, *ssa.FreeVar:
		res = all
	}
	if has {
		if res&eEntry != 0 {
			return r
		}
		return res & r
	}
	return res
}

func (f *errFlow) Instr(in ssa.Instruction, s *errState) *errState {
	switch x := in.(type) {
	case *ssa.Store:
		if f.a.m.cellAddr(x.Addr, f.base) == "err" {
			s.cell = f.abs(x.Val, s, 0)
		}
	case *ssa.Call:
		if callee := f.a.m.calleeOnBase(x, f.base); callee != nil {
			sm := f.a.sum[callee]
			if ks, ok := f.a.eventSummary(f.fn, x, f.base); ok {
				sm = ks
			}
			if sm.hasBool {
				s.pre[x] = s.cell
			}
			n := sm.gen
			if sm.preserve {
				n |= s.cell
			}
			s.cell = n
		}
	}
	return s
}

// refine narrows v (cell alias or SSA value) by a comparison with a singleton.
func (f *errFlow) refineCmp(s *errState, iff *ssa.If, v ssa.Value, c errBits, equal bool) bool {
	cur := f.abs(v, s, 0)
	var n errBits
	if equal {
		n = cur & c
		if cur&eEntry != 0 {
			n = c
		}
	} else {
		n = cur &^ c
	}
	if n == 0 {
		return false
	}
	// cell alias: a load of the err cell in the If's own block with no write in between
	if u, ok := v.(*ssa.UnOp); ok && f.a.m.cellAddr(u.X, f.base) == "err" && u.Block() == iff.Block() {
		clean := true
		past := false
		for _, in := range iff.Block().Instrs {
			if in == ssa.Instruction(u) {
				past = true
				continue
			}
			if !past {
				continue
			}
			switch y := in.(type) {
			case *ssa.Store:
				if f.a.m.cellAddr(y.Addr, f.base) == "err" {
					clean = false
				}
			case *ssa.Call:
				if f.a.m.calleeOnBase(y, f.base) != nil {
					clean = false
				}
			}
		}
		if clean {
			s.cell = n
			return true
		}
	}
	s.ref[v] = n
	return true
}

func (f *errFlow) Edge(from *ssa.BasicBlock, succ int, s *errState) (*errState, bool) {
	iff, ok := from.Instrs[len(from.Instrs)-1].(*ssa.If)
	if !ok {
		return s, true
	}
	condCall, _ := iff.Cond.(*ssa.Call)
	if ex, ok := iff.Cond.(*ssa.Extract); ok {
		if c2, ok := ex.Tuple.(*ssa.Call); ok {
			if callee := f.a.m.calleeOnBase(c2, f.base); callee != nil && f.a.sum[callee].hasBool && f.a.sum[callee].boolIdx == ex.Index {
				condCall = c2
			}
		}
	}
	if c := condCall; c != nil {
		if callee := f.a.m.calleeOnBase(c, f.base); callee != nil && f.a.sum[callee].hasBool && c.Block() == from && (iff.Cond == ssa.Value(c) && f.a.sum[callee].boolIdx == 0 || iff.Cond != ssa.Value(c)) {
			if pre, ok := s.pre[c]; ok {
				sm := f.a.sum[callee]
				gen, keep := sm.tGen, sm.tPre
				if succ == 1 {
					gen, keep = sm.fGen, sm.fPre
				}
				if keep {
					gen |= pre
				}
				if gen == 0 {
					return s, false
				}
				s.cell = gen
			}
		}
		return s, true
	}
	bo, ok := iff.Cond.(*ssa.BinOp)
	if !ok || (bo.Op != token.EQL && bo.Op != token.NEQ) || !isErrorType(bo.X.Type()) {
		return s, true
	}
	single := func(v ssa.Value) (errBits, bool) {
		if c, ok := v.(*ssa.Const); ok && c.IsNil() {
			return eNil, true
		}
		if u, ok := v.(*ssa.UnOp); ok {
			if g, ok := u.X.(*ssa.Global); ok {
				if b, ok := f.a.sentBit[g]; ok {
					return b, true
				}
			}
		}
		return 0, false
	}
	x, y := bo.X, bo.Y
	c, ok := single(y)
	if !ok {
		c, ok = single(x)
		x = y
	}
	if !ok {
		return s, true
	}
	equal := (bo.Op == token.EQL) == (succ == 0)
	feasible := f.refineCmp(s, iff, x, c, equal)
	return s, feasible
}

// hasRecoverDefer: fn defers a function that writes the err cell (the recover handler).
func (a *errAnalysis) hasRecoverDefer(fn *ssa.Function) bool {
	for _, b := range fn.Blocks {
		for _, in := range b.Instrs {
			if d, ok := in.(*ssa.Defer); ok {
				if callee := staticCallee(d); callee != nil && callee.Pkg == a.m.sp {
					return true
				}
			}
		}
	}
	return false
}

func buildErrAnalysis(m *vmModel) *errAnalysis {
	a := &errAnalysis{m: m, va: buildEvalAnalysis(m), sum: map[*ssa.Function]errSummary{}, entry: map[*ssa.Function]errBits{},
		before: map[*ssa.Function]map[ssa.Instruction]*errState{}, sentBit: map[*ssa.Global]errBits{}}
	for i, g := range m.sentinels {
		a.sentBit[g] = eSent0 << uint(i)
		a.allSent |= eSent0 << uint(i)
	}
	a.boxed = a.boxedBits()
	fns := m.funcsOnRecord()
	// summaries
	for iter := 0; iter < 30; iter++ {
		changed := false
		for _, fn := range fns {
			base := m.baseOf(fn)
			if _, isParam := base.(*ssa.Parameter); !isParam {
				continue
			}
			fl := &errFlow{a: a, fn: fn, base: base, ent: eEntry}
			before, _ := runForward[*errState](fn, fl)
			var u, ut, uf errBits
			boolIdx := -1 // the result that tells the caller how the function went: the first result, or else the last boolean one
			if rs := fn.Signature.Results(); rs.Len() >= 1 {
				if types.Identical(rs.At(0).Type(), types.Typ[types.Bool]) {
					boolIdx = 0
				} else if types.Identical(rs.At(rs.Len()-1).Type(), types.Typ[types.Bool]) {
					boolIdx = rs.Len() - 1
				}
			}
			allConst := boolIdx >= 0
			for _, b := range fn.Blocks {
				if ret, ok := b.Instrs[len(b.Instrs)-1].(*ssa.Return); ok {
					if b == fn.Recover {
						continue
					}
					if st, ok := before[ret]; ok {
						u |= st.cell
						if allConst {
							switch constBoolResultAt(ret, boolIdx) {
							case 1:
								ut |= st.cell
							case 0:
								uf |= st.cell
							default:
								allConst = false
							}
						}
					}
				}
			}
			ns := errSummary{preserve: u&eEntry != 0, gen: u &^ eEntry}
			if allConst {
				ns.hasBool = true
				ns.boolIdx = boolIdx
				ns.tPre, ns.tGen = ut&eEntry != 0, ut&^eEntry
				ns.fPre, ns.fGen = uf&eEntry != 0, uf&^eEntry
			}
			if a.hasRecoverDefer(fn) {
				ns.gen |= eOther
			}
			old := a.sum[fn]
			ns.gen |= old.gen
			ns.preserve = ns.preserve || old.preserve
			ns.tGen |= old.tGen
			ns.fGen |= old.fGen
			ns.tPre = ns.tPre || old.tPre
			ns.fPre = ns.fPre || old.fPre
			if ns != old {
				a.sum[fn] = ns
				changed = true
			}
		}
		if !changed {
			break
		}
	}
	// entry states: evaluators and their handlers start with nil (checked at every evaluation event);
	// record allocators start with the zero value; everything else by joining call sites
	isHandler := map[*ssa.Function]bool{m.evalExpr: true, m.evalLet: true, m.evalStmt: true, m.evalOp: true}
	for _, hs := range m.handlers {
		for _, h := range hs {
			isHandler[h] = true
		}
	}
	for _, fn := range fns {
		if isHandler[fn] {
			a.entry[fn] = eNil
		} else if _, isParam := m.baseOf(fn).(*ssa.Parameter); !isParam {
			a.entry[fn] = eNil
		}
	}
	for iter := 0; iter < 10; iter++ {
		changed := false
		for _, fn := range fns {
			base := m.baseOf(fn)
			ent, ok := a.entry[fn]
			if !ok {
				continue
			}
			fl := &errFlow{a: a, fn: fn, base: base, ent: ent}
			before, _ := runForward[*errState](fn, fl)
			a.before[fn] = before
			for _, b := range fn.Blocks {
				for _, in := range b.Instrs {
					c, ok := in.(*ssa.Call)
					if !ok {
						continue
					}
					callee := m.calleeOnBase(c, base)
					if callee == nil || isHandler[callee] {
						continue
					}
					st, ok := before[in]
					if !ok {
						continue
					}
					old, had := a.entry[callee]
					if !had || old|st.cell != old {
						a.entry[callee] = old | st.cell
						changed = true
					}
				}
			}
		}
		if !changed {
			break
		}
	}
	// functions never reached get the full set
	for _, fn := range fns {
		if _, ok := a.entry[fn]; !ok {
			a.entry[fn] = eNil | eOther | a.allSent
			fl := &errFlow{a: a, fn: fn, base: m.baseOf(fn), ent: a.entry[fn]}
			a.before[fn], _ = runForward[*errState](fn, fl)
		}
	}
	return a
}

// constBoolResult resolves the first result of a return to a boolean constant: 1 true, 0 false, -1 unknown.
// Handles named results spilled to memory by defer (store to the result variable earlier in the same block).
func constBoolResult(ret *ssa.Return) int { return constBoolResultAt(ret, 0) }

// constBoolResultAt: result #k of the return is the constant true (1) / false (0); -1 otherwise.
func constBoolResultAt(ret *ssa.Return, k int) int {
	if len(ret.Results) <= k {
		return -1
	}
	v := ret.Results[k]
	if u, ok := v.(*ssa.UnOp); ok {
		if al, ok := u.X.(*ssa.Alloc); ok {
			b := ret.Block()
			for i := len(b.Instrs) - 1; i >= 0; i-- {
				if st, ok := b.Instrs[i].(*ssa.Store); ok && st.Addr == ssa.Value(al) {
					v = st.Val
					break
				}
			}
			if v == ssa.Value(u) {
				// the store may be in the unique chain of predecessors
				for p := b; len(p.Preds) == 1; {
					p = p.Preds[0]
					found := false
					for i := len(p.Instrs) - 1; i >= 0; i-- {
						if st, ok := p.Instrs[i].(*ssa.Store); ok && st.Addr == ssa.Value(al) {
							v = st.Val
							found = true
							break
						}
					}
					if found {
						break
					}
				}
			}
		}
	}
	if c, ok := v.(*ssa.Const); ok && c.Value != nil && c.Value.Kind() == constant.Bool {
		if constant.BoolVal(c.Value) {
			return 1
		}
		return 0
	}
	return -1
}

// eventSummary refines the effect of an evaluator call by the node kinds its operand can be (taken from the
// parser-derived node model): the join of the summaries of the handlers of those kinds. Falls back (ok=false)
// when the operand is not a child field of the handler's node or a kind is handled inline.
func (a *errAnalysis) eventSummary(fn *ssa.Function, c *ssa.Call, base ssa.Value) (errSummary, bool) {
	role := a.m.evalRole(c, base)
	if role == "" || a.va == nil {
		return errSummary{}, false
	}
	var ev *evalEvent
	for _, e := range a.va.events[fn] {
		if e.call == c {
			ev = e
		}
	}
	kind := a.m.nodeKindOfFunc(fn)
	if ev == nil || kind == "" {
		return errSummary{}, false
	}
	var out errSummary
	n := 0
	for _, o := range ev.operands {
		var kinds []string
		if i := strings.LastIndex(o, ".("); i >= 0 && strings.HasSuffix(o, ")") {
			// the operand was narrowed by a type assertion: exactly that kind
			kinds = []string{o[i+2 : len(o)-1]}
		} else {
			f, _, direct := fieldOfPath(o)
			if f == "" || !direct {
				return errSummary{}, false
			}
			kinds = a.m.nm.Kinds("field:" + kind + "." + f)
		}
		if len(kinds) == 0 {
			return errSummary{}, false
		}
		for _, k := range kinds {
			h := a.m.handlers[role][k]
			var sm errSummary
			ok := false
			if h != nil {
				sm, ok = a.sum[h]
			} else if a.m.inline[role][k] {
				sm, ok = a.clauseSummary(role, k)
			}
			if !ok {
				return errSummary{}, false
			}
			out.gen |= sm.gen
			out.preserve = out.preserve || sm.preserve
			n++
		}
	}
	if n == 0 {
		return errSummary{}, false
	}
	if role == "stmt" {
		// the statement dispatcher polls the context first
		out.gen |= a.sentinel("ErrInterrupt")
	}
	return out, true
}

// clauseSummary: effect on the err cell of the inline clause of an evaluator for one node kind
// (dataflow started at the clause's entry block).
func (a *errAnalysis) clauseSummary(role, kind string) (errSummary, bool) {
	key := role + ":" + kind
	if a.clause == nil {
		a.clause = map[string]errSummary{}
	}
	if sm, ok := a.clause[key]; ok {
		return sm, true
	}
	var fn *ssa.Function
	switch role {
	case "expr":
		fn = a.m.evalExpr
	case "let":
		fn = a.m.evalLet
	case "stmt":
		fn = a.m.evalStmt
	case "op":
		fn = a.m.evalOp
	}
	if fn == nil {
		return errSummary{}, false
	}
	base := a.m.baseOf(fn)
	var entry *ssa.BasicBlock
	for _, b := range fn.Blocks {
		for _, in := range b.Instrs {
			if ta, ok := in.(*ssa.TypeAssert); ok && ta.CommaOk && a.m.nm.nodeKind(ta.AssertedType) == kind {
				if x, f, ok := fieldLoad(ta.X); ok && x == base && (a.m.cell[f] == "expr" || a.m.cell[f] == "stmt" || a.m.cell[f] == "operator") {
					entry = clauseEntry(ta)
				}
			}
		}
	}
	if entry == nil {
		return errSummary{}, false
	}
	a.clause[key] = errSummary{preserve: true} // provisional, for recursive clauses (ParenExpr)
	fl := &errFlow{a: a, fn: fn, base: base, ent: eEntry}
	before, _ := runForwardFrom[*errState](fn, fl, entry)
	var u errBits
	for _, b := range fn.Blocks {
		if ret, ok := b.Instrs[len(b.Instrs)-1].(*ssa.Return); ok {
			if st, ok := before[ret]; ok {
				u |= st.cell
			}
		}
	}
	sm := errSummary{preserve: u&eEntry != 0, gen: u &^ eEntry}
	a.clause[key] = sm
	return sm, true
}

// boxedError: ta asserts the Interface() of a reflect.Value to the error interface.
func boxedError(ta *ssa.TypeAssert) bool {
	if !isErrorType(ta.AssertedType) {
		return false
	}
	c, ok := ta.X.(*ssa.Call)
	return ok && reflectMethod(c) == "Interface"
}

// returnsBoxedError: some return of fn hands on an error unboxed from a reflect.Value.
func returnsBoxedError(fn *ssa.Function) bool {
	for _, b := range fn.Blocks {
		ret, ok := b.Instrs[len(b.Instrs)-1].(*ssa.Return)
		if !ok {
			continue
		}
		for _, v := range ret.Results {
			if ta, ok := v.(*ssa.TypeAssert); ok && boxedError(ta) {
				return true
			}
		}
	}
	return false
}

// boxedBits: the union of what package vm puts into a reflect.Value as an error: reflect.ValueOf(<error>) sites are classified
// (a sentinel variable, a wrapped error, nil); an error of unknown origin makes it "anything".
func (a *errAnalysis) boxedBits() errBits {
	all := eNil | eOther | a.allSent
	res := eNil
	for _, fn := range a.m.fns {
		// the VM function protocol: (value, error) both carried as reflect.Value
		if rs := fn.Signature.Results(); rs.Len() != 2 || !isReflectValue(rs.At(0).Type()) || !isReflectValue(rs.At(1).Type()) {
			continue
		}
		for _, b := range fn.Blocks {
			for _, in := range b.Instrs {
				c, ok := in.(*ssa.Call)
				if !ok {
					continue
				}
				if o := calleeObj(c); o == nil || !isFuncNamed(o, "reflect", "", "ValueOf") {
					continue
				}
				var ev ssa.Value
				switch x := c.Call.Args[0].(type) {
				case *ssa.ChangeInterface:
					if isErrorType(x.X.Type()) {
						ev = x.X
					}
				case *ssa.MakeInterface:
					if pt, ok := x.X.Type().(*types.Pointer); ok && isNamed(pt.Elem(), a.m.sp.Pkg.Path(), "Error") {
						res |= eOther
					}
				}
				if ev == nil {
					continue
				}
				switch x := ev.(type) {
				case *ssa.UnOp:
					if g, ok := x.X.(*ssa.Global); ok {
						if bit, ok := a.sentBit[g]; ok {
							res |= bit
						} else {
							res |= eOther
						}
						continue
					}
					res |= all
				case *ssa.Call:
					if callee := staticCallee(x); callee != nil && callee.Pkg == a.m.sp && len(x.Call.Args) == 2 && isErrorType(x.Call.Args[1].Type()) {
						res |= eOther // newError(pos, err): a wrapped error
						continue
					}
					res |= all
				case *ssa.Const:
					res |= eNil
				default:
					res |= all
				}
			}
		}
	}
	return res
}
