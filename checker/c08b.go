package main

import (
	"fmt"
	"go/token"
	"sort"

	"golang.org/x/tools/go/ssa"
)

// c08Extra: R8 a return statement always sets the value it returns (nil for a bare return); R9 one truthiness test.
func c08Extra(p *Program, r *Report) {
	r.Explain("R8 the return handler leaves in the value cell only what it evaluated itself: on every path to one of its exits the cell was stored by the handler (the nil value for a bare return) or by the evaluation of the return expression, never the value the previous statement left. " +
		"R10 in every script-level loop (for-in over slices, maps and channels, the C-style loop, the condition loop) the back edge is reached only through the evaluation of the body: no element or turn is skipped. " +
		"R9 every construct that branches on a script value (if / else-if, the two loop forms, ?:, &&, ||, !) decides with one and the same truthiness function applied to the evaluated value; a branch decided by another test on that value (its kind, Bool(), Len() ...) is reported.")
	m, err := buildVMModel(p)
	if err != nil {
		return
	}
	// R8
	if h := m.handlers["stmt"]["ReturnStmt"]; h == nil {
		r.Undecided("C08.R8", "ReturnStmt", "vm", "handler not found")
	} else {
		tt := newTypeTerms(m, h, nil)
		k := 0
		for _, b := range h.Blocks {
			ret, ok := b.Instrs[len(b.Instrs)-1].(*ssa.Return)
			if !ok {
				continue
			}
			k++
			stale := false
			for d := range tt.before[ret]["rv"] {
				if d == nil {
					stale = true
				}
			}
			r.Check(!stale, "C08.R8", fmt.Sprintf("%s|exit #%d sets the value", h.Name(), k), p.Pos(instrPos(ret)), "the value cell was written by the handler on every path to this exit",
				"a path through the return handler leaves the value cell untouched: a bare `return` yields the value of the previous statement instead of nil")
		}
		r.Floor("C08.R8", k, 1)
	}
	c08BodyEveryIteration(p, r, m)
	r.Explain("R11 while ErrReturn travels from the statement list to the invocation root no handler it crosses writes the value cell (the returned value sits there).")
	c08ReturnValueTravels(p, r, m, buildErrAnalysis(m))
	r.Explain("R12 switch hands case value and subject to the comparator as evaluated (still inside their interface when read from a container): the comparator takes each operand out of its interface independently of the other, so the match agrees with ==.")
	comparatorOperandsIndependent(p, r, m, "C08.R12")
	// R9
	type site struct {
		fn     *ssa.Function
		iff    *ssa.If
		callee *ssa.Function
		other  string
	}
	var sites []site
	count := map[*ssa.Function]int{}
	var hs []*ssa.Function
	for _, rk := range [][2]string{{"stmt", "IfStmt"}, {"stmt", "LoopStmt"}, {"stmt", "CForStmt"}, {"expr", "TernaryOpExpr"}, {"op", "BinaryOperator"}, {"expr", "UnaryExpr"}} {
		if h := m.handlers[rk[0]][rk[1]]; h != nil {
			hs = append(hs, h)
		}
	}
	for _, h := range hs {
		tt := newTypeTerms(m, h, nil)
		for _, b := range h.Blocks {
			iff, ok := b.Instrs[len(b.Instrs)-1].(*ssa.If)
			if !ok {
				continue
			}
			cond := iff.Cond
			if u, ok := cond.(*ssa.UnOp); ok && u.Op == token.NOT {
				cond = u.X
			}
			// conditions built with && / || arrive as chains of Ifs: each link is looked at on its own
			switch x := cond.(type) {
			case *ssa.Call:
				if len(x.Call.Args) == 0 || !isReflectValue(x.Call.Args[0].Type()) || !valueOfEvaluation(tt, x.Call.Args[0], 0) {
					continue
				}
				if meth := reflectMethod(x); meth != "" {
					if meth == "IsNil" {
						continue // part of the unwrap idiom
					}
					sites = append(sites, site{h, iff, nil, "reflect.Value." + meth})
					continue
				}
				if callee := staticCallee(x); callee != nil && callee.Pkg == m.sp {
					sites = append(sites, site{h, iff, callee, ""})
					count[callee]++
				}
			case *ssa.BinOp:
				k, K := kindCmp(x)
				if k == nil {
					continue
				}
				kc, ok := k.(*ssa.Call)
				if !ok || !valueOfEvaluation(tt, kc.Call.Args[0], 0) {
					continue
				}
				if K == 20 || K == 22 {
					continue // unwrap idiom (interface / pointer)
				}
				if operatorCaseOf(b) != "" && false {
					continue
				}
				sites = append(sites, site{h, iff, nil, fmt.Sprintf("Kind() %s %d", x.Op, K)})
			}
		}
	}
	var pred *ssa.Function
	for f, n := range count {
		if pred == nil || n > count[pred] || (n == count[pred] && f.Name() < pred.Name()) {
			pred = f
		}
	}
	if pred == nil || count[pred] < 5 {
		r.Undecided("C08.R9", "truthiness function", "vm", "no function of vm decides the branches of if / loops / ?: / && / || (expected at least 5 uses of one predicate)")
		return
	}
	sort.Slice(sites, func(i, j int) bool { return instrPos(sites[i].iff) < instrPos(sites[j].iff) })
	per := map[string]int{}
	for _, s := range sites {
		per[s.fn.Name()]++
		inst := fmt.Sprintf("%s|branch on a value #%d", s.fn.Name(), per[s.fn.Name()])
		switch {
		case s.callee == pred:
			r.OK("C08.R9", inst, p.Pos(instrPos(s.iff)), "decided by "+pred.Name())
		case s.callee != nil:
			// other helpers of vm on the value (kind classification for arithmetic in the unary handler) are not branch selection of the script
			if s.fn == m.handlers["expr"]["UnaryExpr"] {
				continue
			}
			r.Fail("C08.R9", inst, p.Pos(instrPos(s.iff)), "this branch is decided by "+s.callee.Name()+", the other constructs by "+pred.Name()+": the same value is truthy in one construct and falsy in another")
		default:
			if s.fn == m.handlers["expr"]["UnaryExpr"] {
				continue // the unary handler also classifies kinds for - and ^
			}
			r.Fail("C08.R9", inst, p.Pos(instrPos(s.iff)), "this branch is decided by "+s.other+" on the evaluated value, the other constructs by "+pred.Name()+": truthy non-boolean values are treated differently here")
		}
	}
	r.Floor("C08.R9", count[pred], 8)
}

// c08BodyEveryIteration (R10): in every script-level loop, an iteration that goes round (reaches the back edge) has run the body.
func c08BodyEveryIteration(p *Program, r *Report, m *vmModel) {
	va := buildEvalAnalysis(m)
	aa := newAddrAnalysis(m, nil, nil)
	set := c10HandlerSet(m, aa, "ForStmt", "CForStmt", "LoopStmt")
	var fns []*ssa.Function
	for fn := range set {
		fns = append(fns, fn)
	}
	sort.Slice(fns, func(i, j int) bool { return funcName(fns[i]) < funcName(fns[j]) })
	n := 0
	for _, fn := range fns {
		for _, lp := range loopsOf(fn) {
			// the body: a statement evaluation inside this loop
			body := map[*ssa.BasicBlock]bool{}
			for _, e := range va.events[fn] {
				if e.role == "stmt" && lp.Body[e.call.Block()] {
					body[e.call.Block()] = true
				}
			}
			if len(body) == 0 {
				continue
			}
			n++
			bad := ""
			if !body[lp.Header] {
				reach := reachable(lp.Header, func(b *ssa.BasicBlock) bool { return b != lp.Header && (body[b] || !lp.Body[b]) })
				for _, pr := range lp.Header.Preds {
					if lp.Body[pr] && reach[pr] && !body[pr] {
						bad = p.Pos(instrPos(pr.Instrs[len(pr.Instrs)-1]))
					}
				}
			}
			r.Check(bad == "", "C08.R10", fmt.Sprintf("%s|every iteration runs the body", funcName(fn)), p.Pos(instrPos(lp.Header.Instrs[0])), "the back edge is reached only through the body",
				"an iteration can go round (back edge at "+bad+") without running the body: an element (or a turn of the loop) is silently skipped")
		}
	}
	r.Floor("C08.R10", n, 4)
}

// valueOfEvaluation: v is the value an evaluation left in the value cell (a load of the cell, or an unwrapping of it).
func valueOfEvaluation(tt *typeTerms, v ssa.Value, depth int) bool {
	if depth > 6 {
		return false
	}
	if u, ok := v.(*ssa.UnOp); ok && u.Op == token.MUL && tt.base != nil && tt.m.cellAddr(u.X, tt.base) == "rv" {
		return true
	}
	switch x := v.(type) {
	case *ssa.Call:
		if reflectMethod(x) == "Elem" {
			return valueOfEvaluation(tt, x.Call.Args[0], depth+1)
		}
	case *ssa.Phi:
		for _, e := range x.Edges {
			if valueOfEvaluation(tt, e, depth+1) {
				return true
			}
		}
	}
	return false
}

// c08ReturnValueTravels (R11): `return` yields its value. Between the statement list raising ErrReturn (the value sits in the
// value cell) and the invocation root turning it into the result, every handler the signal crosses leaves the value cell
// alone: a store to the value cell at a point where the error cell may hold ErrReturn replaces the returned value.
func c08ReturnValueTravels(p *Program, r *Report, m *vmModel, ea *errAnalysis) {
	bRet := ea.sentinel("ErrReturn")
	if bRet == 0 {
		r.Undecided("C08.R11", "ErrReturn", "vm", "sentinel not found")
		return
	}
	n := 0
	for _, fn := range m.funcsOnRecord() {
		base := m.baseOf(fn)
		cnt := 0
		for _, b := range fn.Blocks {
			for _, in := range b.Instrs {
				st, ok := in.(*ssa.Store)
				if !ok || m.cellAddr(st.Addr, base) != "rv" {
					continue
				}
				s := ea.before[fn][st]
				if s == nil {
					continue
				}
				n++
				if s.cell&bRet == 0 || ea.hasRecoverCall(fn) {
					continue // a panic handler replaces the whole outcome of the operation, error included
				}
				if x, f, ok := fieldLoad(st.Val); ok && sameBase(x, base) && m.cell[f] == "rv" {
					continue // puts back the value it saved from this very cell
				}
				cnt++
				r.Fail("C08.R11", fmt.Sprintf("%s|value cell overwritten under ErrReturn #%d", funcName(fn), cnt), p.Pos(instrPos(st)),
					"the value cell is written while the error cell can hold ErrReturn: a `return v` that crosses this statement yields what is stored here instead of v")
			}
		}
	}
	r.Floor("C08.R11", n, 100)
	if n >= 100 {
		r.OK("C08.R11", "value cell|untouched while ErrReturn travels", "vm", fmt.Sprintf("%d stores to the value cell examined", n))
	}
}

// hasRecoverCall: fn itself calls recover().
func (a *errAnalysis) hasRecoverCall(fn *ssa.Function) bool {
	for _, b := range fn.Blocks {
		for _, in := range b.Instrs {
			if c, ok := in.(*ssa.Call); ok {
				if bi, ok := c.Call.Value.(*ssa.Builtin); ok && bi.Name() == "recover" {
					return true
				}
			}
		}
	}
	return false
}
