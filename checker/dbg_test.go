package main

import (
	"fmt"
	"sort"
	"testing"
)

func TestDbg(t *testing.T) {
	p, err := Load(LoadOptions{Root: "/repo"})
	if err != nil {
		t.Fatal(err)
	}
	m, _ := buildVMModel(p)
	for role, hs := range m.handlers {
		var ks []string
		for k, f := range hs {
			ks = append(ks, k+"="+f.Name())
		}
		sort.Strings(ks)
		fmt.Println(role, ks)
	}
}
