package main

import (
	"fmt"
	"go/token"
	"os"
	"sort"
	"strings"

	"golang.org/x/tools/go/ssa"
)

func init() {
	register("C08", "branches, loops, break/continue/return do what their syntax says", func(p *Program, r *Report) { checkC08(p, r); c08Extra(p, r) })
}

// scriptLoops returns the natural loops of fn that execute a statement operand which is not a list element (a loop body).
func scriptLoops(fn *ssa.Function, va *evalAnalysis) []*Loop {
	var out []*Loop
	for _, l := range loopsOf(fn) {
		for _, e := range va.events[fn] {
			if e.role != "stmt" || !l.Body[e.call.Block()] {
				continue
			}
			nonIndexed := false
			for _, o := range e.operands {
				if !strings.Contains(o, "[") {
					nonIndexed = true
				}
			}
			if nonIndexed {
				out = append(out, l)
				break
			}
		}
	}
	return out
}

// sentinelOfKind maps a statement kind to the control-flow sentinel it raises, by the shared word (Break/Continue/Return).
func sentinelOfKind(a *errAnalysis, kind string) (errBits, string) {
	for g, b := range a.sentBit {
		w := strings.TrimPrefix(g.Name(), "Err")
		if w != "" && strings.HasPrefix(kind, w) {
			return b, g.Name()
		}
	}
	return 0, ""
}

// errStoreVal classifies a store to the err cell.
func (f *errFlow) storeBits(st *ssa.Store, s *errState) errBits { return f.abs(st.Val, s, 0) }

func checkC08(p *Program, r *Report) {
	r.Explain("C08: how the control-flow signals travel, decided with the abstract error-cell analysis (values nil / ErrBreak / ErrContinue / ErrReturn / ErrInterrupt / other error, callee summaries, branch refinement). " +
		"R1 the signals are raised only by the statement-list handler, under the clause of the matching statement kind, after the return value (if any) was evaluated without error, and the list stops there (the store is followed by a return with no further evaluation). " +
		"R2 who may consume: a store into the error cell whose previous content may be ErrBreak/ErrContinue is allowed only inside a script-level loop handler, for ErrReturn only at an invocation root or in the deferred-call runner; the recover handler may overwrite anything. " +
		"R3 loop handlers agree: every script loop tests all three signals; the back edge is reached with a nil error only; on ErrBreak control leaves the loop, on ErrContinue it stays in the loop; no return carries ErrBreak/ErrContinue upward. " +
		"R4 a C-style loop reaches its post expression on the continue path. " +
		"R5 ErrReturn never leaves an invocation root and is never wrapped into an ordinary error. " +
		"R6 at most one branch body of if / switch runs on any path. R7 every element of a statement/case/condition list is examined: the evaluation of list elements dominates the latches of the loop over the list (no element is skipped).")
	r.Assume("truthiness of condition values, equality of case values and map iteration are value-level and not decided")
	m, err := buildVMModel(p)
	if err != nil {
		r.Undecided("C08.R1", "model", "vm", err.Error())
		return
	}
	ea := buildErrAnalysis(m)
	va := buildEvalAnalysis(m)
	ctl := errBits(0)
	ctlNames := []string{}
	for g, b := range ea.sentBit {
		w := strings.TrimPrefix(g.Name(), "Err")
		if w == "Break" || w == "Continue" || w == "Return" {
			ctl |= b
			ctlNames = append(ctlNames, g.Name())
		}
	}
	sort.Strings(ctlNames)
	if len(ctlNames) != 3 {
		r.Undecided("C08.R1", "sentinels", "vm", fmt.Sprintf("expected three control-flow sentinels, found %v", ctlNames))
		return
	}
	bBreak, bCont, bRet := ea.sentinel("ErrBreak"), ea.sentinel("ErrContinue"), ea.sentinel("ErrReturn")
	listH := m.handlers["stmt"]["StmtsStmt"]
	if listH == nil {
		r.Undecided("C08.R1", "StmtsStmt", "vm", "statement-list handler not found")
		return
	}

	// R1 + R2: every store to the err cell
	nStores := 0
	// roots: the functions that allocate the record of an invocation; and helpers that only they call on that record (the shared
	// exit sequence of an invocation: run the statement, run the deferred calls, clear the return marker)
	rootLike := map[*ssa.Function]bool{}
	for _, fn := range m.funcsOnRecord() {
		if _, isParam := m.baseOf(fn).(*ssa.Parameter); !isParam {
			rootLike[fn] = true
		}
	}
	for changed := true; changed; {
		changed = false
		for _, fn := range m.funcsOnRecord() {
			if rootLike[fn] || fn.Parent() != nil {
				continue
			}
			calls, all := 0, true
			for _, caller := range m.fns {
				for _, b := range caller.Blocks {
					for _, in := range b.Instrs {
						if c, ok := in.(*ssa.Call); ok && staticCallee(c) == fn {
							calls++
							if !rootLike[caller] {
								all = false
							}
						}
						for _, op := range in.Operands(nil) {
							if *op == ssa.Value(fn) {
								if c, ok := in.(*ssa.Call); !ok || c.Call.Value != ssa.Value(fn) {
									all = false // the function is used as a value
								}
							}
						}
					}
				}
			}
			if calls > 0 && all && fn != m.evalStmt && fn != m.evalExpr && fn != m.evalLet && fn != m.evalOp {
				rootLike[fn] = true
				changed = true
			}
		}
	}
	isRoot := func(fn *ssa.Function) bool {
		_, isParam := m.baseOf(fn).(*ssa.Parameter)
		return !isParam
	}
	isRootLike := func(fn *ssa.Function) bool { return rootLike[fn] }
	isDefersRunner := func(fn *ssa.Function) bool { return m.storesNilToDefers(fn) }
	isRecover := func(fn *ssa.Function) bool {
		for _, b := range fn.Blocks {
			for _, in := range b.Instrs {
				if c, ok := in.(*ssa.Call); ok {
					if bi, ok := c.Call.Value.(*ssa.Builtin); ok && bi.Name() == "recover" {
						return true
					}
				}
			}
		}
		return false
	}
	for _, fn := range m.funcsOnRecord() {
		base := m.baseOf(fn)
		fname := funcName(fn)
		fl := &errFlow{a: ea, fn: fn, base: base, ent: ea.entry[fn]}
		loops := scriptLoops(fn, va)
		cnt := map[string]int{}
		for _, b := range fn.Blocks {
			for _, in := range b.Instrs {
				st, ok := in.(*ssa.Store)
				if !ok || m.cellAddr(st.Addr, base) != "err" {
					continue
				}
				pre := ea.before[fn][st]
				if pre == nil {
					continue
				}
				nStores++
				val := fl.storeBits(st, pre)
				site := p.Pos(instrPos(st))
				key := fmt.Sprintf("%s|err = %s", fname, ea.bitName(val))
				cnt[key]++
				inst := key
				if cnt[key] > 1 {
					inst = fmt.Sprintf("%s #%d", key, cnt[key])
				}
				// R1: raising a control signal
				if val&ctl != 0 && val&^ctl == 0 {
					okR1 := fn == listH
					why := "a control-flow signal is raised outside the statement-list handler"
					if okR1 {
						// under the clause of the matching kind
						kind := clauseKindOf(m, st.Block())
						want, wname := sentinelOfKind(ea, kind)
						switch {
						case kind == "":
							okR1, why = false, "signal raised outside a statement-kind clause"
						case want != val:
							okR1, why = false, fmt.Sprintf("clause of %s raises %s instead of %s", kind, ea.bitName(val), wname)
						case !storeThenReturn(m, st, base):
							okR1, why = false, "the statement list does not stop after raising the signal (later statements of the block still run)"
						case pre.cell&^eNil != 0:
							okR1, why = false, "signal raised although the value expression failed with "+ea.bitName(pre.cell&^eNil)
						}
					}
					r.Check(okR1, "C08.R1", inst, site, "raised by the statement list under the matching clause, then the list returns", why)
				}
				// R2: consuming
				lost := pre.cell &^ val &^ eNil
				if isRecover(fn) {
					continue
				}
				if lost&(bBreak|bCont) != 0 {
					inLoop := false
					for _, l := range loops {
						if l.Body[b] || l.Header.Dominates(b) {
							inLoop = true
						}
					}
					if isDefersRunner(fn) {
						inLoop = true // saved and restored, see C09.R3
					}
					r.Check(inLoop, "C08.R2", inst+"|consumes break/continue", site, "break/continue consumed by the loop they belong to", "a pending "+ea.bitName(lost&(bBreak|bCont))+" is overwritten outside any loop handler: break/continue does not reach the innermost enclosing loop")
				}
				if lost&bRet != 0 {
					r.Check(isRootLike(fn) || isDefersRunner(fn), "C08.R2", inst+"|consumes return", site, "return consumed at the invocation boundary", "a pending ErrReturn is overwritten inside a block construct: return does not end the function invocation")
				}
			}
		}
	}
	r.Floor("C08.R2", nStores, 100)

	// R3/R4: loop handlers
	nLoops := 0
	var sigs []string
	for _, fn := range m.funcsOnRecord() {
		base := m.baseOf(fn)
		fname := funcName(fn)
		for li, l := range scriptLoops(fn, va) {
			nLoops++
			inst := fname
			if li > 0 {
				inst = fmt.Sprintf("%s loop#%d", fname, li+1)
			}
			site := p.Pos(instrPos(l.Header.Instrs[0]))
			// tests of the three signals inside the loop
			tests := map[errBits]*ssa.If{}
			for _, b := range fn.Blocks {
				if !(l.Body[b] || l.Header.Dominates(b)) {
					continue
				}
				iff, ok := b.Instrs[len(b.Instrs)-1].(*ssa.If)
				if !ok {
					continue
				}
				bo, ok := iff.Cond.(*ssa.BinOp)
				if !ok || bo.Op != token.EQL || !isErrorType(bo.X.Type()) {
					continue
				}
				if m.cellLoad(bo.X, base) != "err" {
					continue
				}
				if u, ok := bo.Y.(*ssa.UnOp); ok {
					if g, ok := u.X.(*ssa.Global); ok {
						if bit, ok := ea.sentBit[g]; ok {
							tests[bit] = iff
						}
					}
				}
			}
			sig := []string{}
			for _, pr := range []struct {
				bit  errBits
				name string
			}{{bBreak, "ErrBreak"}, {bCont, "ErrContinue"}, {bRet, "ErrReturn"}} {
				iff := tests[pr.bit]
				if iff == nil {
					r.Fail("C08.R3", inst+"|tests "+pr.name, site, "loop does not test "+pr.name+" after its body")
					continue
				}
				t := iff.Block().Succs[0]
				reach := reachable(t, func(b *ssa.BasicBlock) bool { return !l.Body[b] })
				stays := reach[l.Header]
				leaves := false
				for b := range reachable(t, nil) {
					if !l.Body[b] {
						leaves = true
					}
				}
				switch pr.name {
				case "ErrBreak":
					r.Check(!stays, "C08.R3", inst+"|break leaves", p.Pos(iff.Pos()), "on ErrBreak control leaves the loop", "after a break the loop can go round again")
					sig = append(sig, fmt.Sprintf("break:leaves=%v", !stays))
				case "ErrContinue":
					// must stay: the header is reachable inside the loop, and the loop cannot be left before the header is reached
					leftEarly := false
					for b := range reachable(t, func(b *ssa.BasicBlock) bool { return b == l.Header }) {
						if !l.Body[b] {
							leftEarly = true
						}
					}
					// a later test in the same chain may legitimately leave (err changed); only count exits before any store/branch on err
					r.Check(stays, "C08.R3", inst+"|continue stays", p.Pos(iff.Pos()), "on ErrContinue control goes on with the next iteration", "after a continue the loop is left")
					_ = leftEarly
					_ = leaves
					sig = append(sig, fmt.Sprintf("continue:stays=%v", stays))
				case "ErrReturn":
					// the function returns with the signal untouched: some return reachable from t inside which err may be ErrReturn
					okRet := false
					for b := range reachable(t, nil) {
						if ret, ok := b.Instrs[len(b.Instrs)-1].(*ssa.Return); ok {
							if st := ea.before[fn][ret]; st != nil && st.cell&bRet != 0 {
								okRet = true
							}
						}
					}
					r.Check(okRet, "C08.R3", inst+"|return passes", p.Pos(iff.Pos()), "on ErrReturn the handler returns with the signal pending", "ErrReturn does not travel upward from this loop")
					sig = append(sig, fmt.Sprintf("return:passes=%v", okRet))
				}
			}
			// back edges carry a nil error only
			for _, la := range l.Latches {
				last := la.Instrs[len(la.Instrs)-1]
				st := ea.before[fn][last]
				if st == nil {
					continue
				}
				// refine by the edge itself
				cell := st.cell
				if iff, ok := last.(*ssa.If); ok {
					fl := &errFlow{a: ea, fn: fn, base: base, ent: ea.entry[fn]}
					for si, s := range la.Succs {
						if s == l.Header {
							if es, feas := fl.Edge(la, si, fl.Copy(st)); feas {
								cell = es.cell
							} else {
								cell = 0
							}
						}
					}
					_ = iff
				}
				r.Check(cell&^eNil == 0, "C08.R3", fmt.Sprintf("%s|back edge from %s", inst, exitKeyBlock(la)), p.Pos(instrPos(last)), "next iteration starts with a nil error", "the loop can go round again with a pending "+ea.bitName(cell&^eNil))
			}
			// returns never carry break/continue
			for _, b := range fn.Blocks {
				if ret, ok := b.Instrs[len(b.Instrs)-1].(*ssa.Return); ok && b != fn.Recover {
					if st := ea.before[fn][ret]; st != nil && st.cell&(bBreak|bCont) != 0 {
						r.Fail("C08.R3", inst+"|return carries "+ea.bitName(st.cell&(bBreak|bCont)), p.Pos(instrPos(ret)), "break/continue escapes the loop handler: it would act on an outer loop")
					}
				}
			}
			sort.Strings(sig)
			sigs = append(sigs, inst+": "+strings.Join(sig, " "))
			// R4: post expression on the continue path
			var post *evalEvent
			var body *evalEvent
			for _, e := range va.events[fn] {
				if !l.Body[e.call.Block()] {
					continue
				}
				if e.role == "stmt" {
					body = e
				}
			}
			if body != nil {
				for _, e := range va.events[fn] {
					if e.role == "expr" && l.Body[e.call.Block()] && body.call.Block().Dominates(e.call.Block()) && e != body {
						post = e
					}
				}
			}
			if post != nil && tests[bCont] != nil {
				t := tests[bCont].Block().Succs[0]
				// every path from the continue edge to the header passes the post event or its nil guard
				guard := post.call.Block()
				if len(guard.Preds) == 1 {
					guard = guard.Preds[0]
				}
				reach := reachable(t, func(b *ssa.BasicBlock) bool { return b == guard || b == post.call.Block() || !l.Body[b] })
				r.Check(!reach[l.Header], "C08.R4", inst+"|continue runs post", p.Pos(post.call.Pos()), "after continue the post expression "+strings.Join(post.operands, "|")+" is still evaluated", "a continue skips the loop's post expression")
			}
		}
	}
	r.Floor("C08.R3", nLoops, 5)
	r.Note("loop_signatures", sigs)

	// R5
	for _, fn := range m.funcsOnRecord() {
		base := m.baseOf(fn)
		if !isRoot(fn) {
			continue
		}
		fname := funcName(fn)
		fl := &errFlow{a: ea, fn: fn, base: base, ent: ea.entry[fn]}
		for _, b := range fn.Blocks {
			for _, in := range b.Instrs {
				switch x := in.(type) {
				case *ssa.Return:
					if st := ea.before[fn][x]; st != nil && b != fn.Recover {
						// what the invocation reports: for exported roots the err cell itself
						if fn.Parent() == nil {
							r.Check(st.cell&bRet == 0, "C08.R5", fname+"|"+exitKey(x), p.Pos(instrPos(x)), "ErrReturn is turned into a normal result before the run returns", "ErrReturn can be returned to the host as an error")
						}
					}
				case *ssa.Call:
					if callee := staticCallee(x); callee != nil && callee.Pkg == m.sp && len(x.Call.Args) == 2 && isErrorType(x.Call.Args[1].Type()) {
						if st := ea.before[fn][x]; st != nil {
							v := fl.abs(x.Call.Args[1], st, 0)
							r.Check(v&bRet == 0, "C08.R5", fname+"|wraps error", p.Pos(x.Pos()), "the wrapped error cannot be ErrReturn", "ErrReturn can be wrapped into an ordinary error: a plain return would fail the call")
						}
					}
				}
			}
		}
	}

	// R6: at most one branch body
	for _, k := range []string{"IfStmt", "SwitchStmt"} {
		h := m.handlers["stmt"][k]
		if h == nil {
			r.Undecided("C08.R6", k, "vm", "handler not found")
			continue
		}
		bad := ""
		n := 0
		handsOn := func(c *ssa.Call) bool {
			callee := m.calleeOnBase(c, m.baseOf(h))
			if callee == nil || m.evalRole(c, m.baseOf(h)) != "" {
				return false
			}
			runs := false
			for _, e := range va.events[callee] {
				if e.role == "stmt" {
					runs = true
				}
			}
			if !runs {
				return false
			}
			for _, a := range c.Call.Args {
				if cat, sl := m.nm.catOf(a.Type()); cat == "Stmt" && !sl {
					if _, _, isField := fieldLoad(a); isField {
						return true
					}
				}
			}
			return false
		}
		bf := &bodyFlow{m: m, base: m.baseOf(h), handsOn: handsOn}
		bBefore, _ := runForward[bool](h, bf)
		for _, e := range va.events[h] {
			if e.role != "stmt" {
				continue
			}
			n++
			if bBefore[e.call] {
				bad = "the body " + normIdx(strings.Join(e.operands, "|")) + " can run although another branch body already ran on the same path"
			}
		}
		for _, b := range h.Blocks {
			for _, in := range b.Instrs {
				if c, ok := in.(*ssa.Call); ok && handsOn(c) {
					n++
					if bBefore[c] {
						bad = "a branch body (run through " + staticCallee(c).Name() + ") can run although another branch body already ran on the same path"
					}
				}
			}
		}
		r.Check(bad == "" && n >= 2, "C08.R6", k+"|one-body", p.Pos(h.Pos()), fmt.Sprintf("%d branch bodies, at most one on any path", n), bad)
	}

	// R7: no list element skipped
	n7 := 0
	for _, fn := range m.funcsOnRecord() {
		fname := funcName(fn)
		loops := loopsOf(fn)
		groups := map[string][]*evalEvent{}
		parts := map[string][]*evalEvent{}
		for _, e := range va.events[fn] {
			if e.role == "let" {
				continue
			}
			for _, o := range e.operands {
				if !strings.HasPrefix(o, "node.") || !strings.HasSuffix(o, "]") {
					// a part of an element evaluated in place (`node.Stmts[i].(ExprStmt).Expr`: the element's own handler inlined)
					// counts as an evaluation of that element where the element itself is evaluated on other paths
					if i := strings.Index(o, "]."); strings.HasPrefix(o, "node.") && i > 0 && !strings.Contains(o[:i], "].") {
						parts[normIdx(o[:i+1])] = append(parts[normIdx(o[:i+1])], e)
					}
					continue // only elements of operand lists; bodies and filtered elements are conditional by design
				}
				groups[normIdx(o)] = append(groups[normIdx(o)], e)
			}
		}
		var keys []string
		for k := range groups {
			keys = append(keys, k)
		}
		sort.Strings(keys)
		for _, k := range keys {
			evs := groups[k]
			// loops that contain the events and whose induction variable indexes the operand, outermost first
			o := ""
			for _, op := range evs[0].operands {
				if normIdx(op) == k {
					o = op
				}
			}
			var chain []*Loop
			rest := o
			for {
				i := strings.Index(rest, "[")
				if i < 0 {
					break
				}
				j := strings.Index(rest[i:], "]")
				name := rest[i+1 : i+j]
				rest = rest[i+j+1:]
				v, ok := va.idx(fn)[name]
				if !ok {
					continue
				}
				var phi *ssa.Phi
				switch x := v.(type) {
				case *ssa.Phi:
					phi = x
				case *ssa.BinOp:
					phi, _ = x.X.(*ssa.Phi)
				}
				if phi == nil {
					continue
				}
				for _, l := range loops {
					if l.Header == phi.Block() && l.Body[evs[0].call.Block()] {
						chain = append(chain, l)
					}
				}
			}
			if len(chain) == 0 {
				continue
			}
			n7++
			bad := ""
			for ci, l := range chain {
				must := map[*ssa.BasicBlock]bool{}
				if ci+1 < len(chain) {
					must[chain[ci+1].Header] = true
				} else {
					for _, e := range evs {
						must[e.call.Block()] = true
					}
					for _, e := range parts[k] {
						must[e.call.Block()] = true
					}
				}
				// from the loop body entry, a latch must not be reachable without passing a must-block
				for _, s := range l.Header.Succs {
					if !l.Body[s] {
						continue
					}
					reach := reachable(s, func(b *ssa.BasicBlock) bool { return must[b] || !l.Body[b] || b == l.Header })
					for _, la := range l.Latches {
						if reach[la] && !must[la] {
							if os.Getenv("C08DEBUG") != "" {
								fmt.Println("R7 debug", fname, k, "loop header", l.Header.Index, "latch", la.Index, "from", s.Index, "chain", len(chain), ci)
							}
							bad = "an iteration over the list can go on to the next element without evaluating this one"
						}
					}
				}
			}
			r.Check(bad == "", "C08.R7", fname+"|"+k, p.Pos(evs[0].call.Pos()), "every element visited by the loop is evaluated", bad)
		}
	}
	r.Floor("C08.R7", n7, 7)
}

func exitKeyBlock(b *ssa.BasicBlock) string {
	if iff, ok := b.Instrs[len(b.Instrs)-1].(*ssa.If); ok {
		return "`" + condString(iff.Cond) + "`"
	}
	for i := len(b.Instrs) - 1; i >= 0; i-- {
		if c, ok := b.Instrs[i].(*ssa.Call); ok {
			if callee := staticCallee(c); callee != nil {
				return "after " + callee.Name()
			}
		}
		if st, ok := b.Instrs[i].(*ssa.Store); ok {
			if fa, ok := st.Addr.(*ssa.FieldAddr); ok {
				return "after ." + fieldOfAddr(fa).Name() + " = " + operandString(st.Val)
			}
		}
	}
	return b.Comment
}

// clauseKindOf: the node kind whose type-switch clause (over a value of category Stmt) dominates block b.
func clauseKindOf(m *vmModel, b *ssa.BasicBlock) string {
	for d := b; d != nil; d = d.Idom() {
		id := d.Idom()
		if id == nil {
			return ""
		}
		iff, ok := id.Instrs[len(id.Instrs)-1].(*ssa.If)
		if !ok {
			continue
		}
		ex, ok := iff.Cond.(*ssa.Extract)
		if !ok || ex.Index != 1 {
			continue
		}
		ta, ok := ex.Tuple.(*ssa.TypeAssert)
		if !ok {
			continue
		}
		if id.Succs[0] == d || id.Succs[0].Dominates(d) {
			if k := m.nm.nodeKind(ta.AssertedType); k != "" {
				return k
			}
		}
	}
	return ""
}

// storeThenReturn: after the store, control reaches a return without any call on the record.
func storeThenReturn(m *vmModel, st *ssa.Store, base ssa.Value) bool {
	b := st.Block()
	idx := instrIndex(st)
	for _, in := range b.Instrs[idx+1:] {
		if c, ok := in.(*ssa.Call); ok && m.calleeOnBase(c, base) != nil {
			return false
		}
	}
	if _, ok := b.Instrs[len(b.Instrs)-1].(*ssa.Return); ok {
		return true
	}
	// allow a jump to a block that only returns
	for cur, n := b, 0; n < 3; n++ {
		if len(cur.Succs) != 1 {
			return false
		}
		cur = cur.Succs[0]
		for _, in := range cur.Instrs {
			switch in.(type) {
			case *ssa.Return:
				return true
			case *ssa.Jump, *ssa.DebugRef, *ssa.RunDefers, *ssa.UnOp:
			default:
				return false
			}
		}
	}
	return false
}

// storesNilToDefers: fn clears the defers cell (the deferred-call runner).
func (m *vmModel) storesNilToDefers(fn *ssa.Function) bool {
	base := m.baseOf(fn)
	for _, b := range fn.Blocks {
		for _, in := range b.Instrs {
			if st, ok := in.(*ssa.Store); ok && m.cellAddr(st.Addr, base) == "defers" && isNilConst(st.Val) {
				return true
			}
		}
	}
	return false
}

// bodyFlow: may-analysis "a branch body has already been executed" for the if / switch handlers.
type bodyFlow struct {
	m    *vmModel
	base ssa.Value
	// handsOn: the call passes a statement of the node to a function of the record that runs the statement it is handed
	// (`runBlockStmt(env, stmt.Then)`): a branch body run through a helper
	handsOn func(c *ssa.Call) bool
}

func (f *bodyFlow) Entry() bool      { return false }
func (f *bodyFlow) Copy(s bool) bool { return s }
func (f *bodyFlow) Join(a, b bool) (bool, bool) {
	return a || b, (a || b) != a
}
func (f *bodyFlow) Instr(in ssa.Instruction, s bool) bool {
	if c, ok := in.(*ssa.Call); ok && (f.m.evalRole(c, f.base) == "stmt" || (f.handsOn != nil && f.handsOn(c))) {
		return true
	}
	return s
}
func (f *bodyFlow) Edge(from *ssa.BasicBlock, succ int, s bool) (bool, bool) { return s, true }
